//! Runtime behind the `--cfg oh_verif` hooks in /repo.
//!
//! * `sync::LazyLock` / `sync::Once` / `sync::OnceLock`: shuttle-backed
//!   replacements of the `std::sync` primitives the repository uses for its
//!   process-wide tables. Storage is per shuttle execution, so every execution
//!   starts with *uninitialised* tables (a fresh process boot) and the first
//!   use is a scheduling point.
//! * `probe(site)`: a reach counter and — at a seeded subset of sites, with a
//!   seeded probability — a scheduling point (`thread::sleep(0)`, i.e. a plain
//!   context switch; not `yield_now`, which would make PCT deprioritise the
//!   caller).
//! * `io::SimRead`: wraps the production holiday decoder's reader and injects
//!   *transparent* faults only (short reads, `Interrupted`).
//!
//! All per-execution bookkeeping lives in plain `std` thread-locals: the
//! shuttle threads of one execution are coroutines on one OS thread, so a
//! thread-local is "global to the execution"; no borrow is ever held across a
//! scheduling point.

use std::cell::RefCell;
use std::collections::BTreeMap;

#[derive(Clone, Debug, Default)]
pub struct ExecConfig {
    /// probability (per mille) that an enabled probe yields
    pub probe_yield_permille: u32,
    /// bit i set = probe site i (index into PROBE_SITES) is a scheduling point in this execution
    pub probe_sites_enabled: u32,
    /// at most this many probe yields per execution (keeps the step count bounded)
    pub probe_yield_budget: u32,
    /// per mille probability of a short read / Interrupted per `read` call in the holiday decoder
    pub read_short_permille: u32,
    pub read_eintr_permille: u32,
    /// 0 = unlimited; otherwise the `schedule_at:entry` probe panics once it has been hit
    /// this many times since the last `reset_work_budget()` (used by the sequential
    /// pre-screen of the expression pool to bound work deterministically)
    pub schedule_call_limit: u64,
    /// per mille probability that a probe also moves the simulated clock forward by a seeded amount
    /// (milliseconds to hours): the calling thread was "away for a while"
    pub clock_jump_permille: u32,
    /// "slow or stalled thread" fault: 0 = off; otherwise the k-th function entry of a simulated thread (every
    /// non-const `fn` of the generated tree starts with `stall_point()`) is a scheduling point when
    /// hash(stall_seed, task, k) % stall_period == 0 -- a function of the configuration and of the thread's own
    /// progress only, never a draw from the scheduler's random stream, so that an inert stall point costs no step
    /// of the recorded schedule and replays exactly. A stall lasts 1, 4, 16 or 64 consecutive context switches.
    pub stall_period: u32,
    pub stall_seed: u64,
    /// at most this many stalls per execution
    pub stall_budget: u32,
    /// per mille of the lock acquisitions (shim `Mutex` / `RwLock`) after which the new holder is descheduled
    /// for 4-64 context switches
    pub hold_permille: u32,
    /// only simulated threads whose task id has its bit set here stall (bit = id % 32): one slow thread among
    /// fast ones, or all of them
    pub stall_tasks: u32,
}

pub const PROBE_SITES: &[&str] = &[
    "schedule_at:entry",
    "consume_until_next_kind:day_jump",
    "decode_holidays_db:region",
    "from_coords:between_lazies",
    "try_from_coords:before_boundaries",
    "build_date_from:easter",
];

#[derive(Clone, Debug, Default)]
pub struct ExecStats {
    pub probe_hits: BTreeMap<&'static str, u64>,
    pub probe_yields: u64,
    /// (type name of the table, address, shuttle task id) in order of first force
    pub first_use_order: Vec<(&'static str, usize, usize)>,
    /// forces that found another thread already inside the initialiser of the same table
    pub contended_first_use: u64,
    pub lazy_forces: u64,
    pub once_calls: u64,
    pub reads: u64,
    pub short_reads: u64,
    pub eintr_reads: u64,
    pub clock_jumps: u64,
    /// function entries seen by `stall_point()` while the fault kind was enabled / stalls taken / context switches spent in them
    pub fn_entries: u64,
    pub stalls: u64,
    pub holds: u64,
    pub stall_switches: u64,
    /// operations on a dependency's process-wide atomics (pest's call limit / error detail), each a scheduling point
    pub dep_atomic_ops: u64,
    /// hash of the (task, site) sequence of all scheduling points taken through the shim
    pub interleaving_sig: u64,
}

struct State {
    cfg: ExecConfig,
    stats: ExecStats,
    in_force: BTreeMap<usize, u32>,
    forced: BTreeMap<usize, bool>,
    yields_left: u32,
    clock_draws_left: u32,
    active: bool,
    work: u64,
    stalls_left: u32,
    fn_counts: BTreeMap<usize, u64>,
    hold_counts: BTreeMap<usize, u64>,
}

std::thread_local! {
    static STATE: RefCell<State> = RefCell::new(State {
        cfg: ExecConfig::default(),
        stats: ExecStats::default(),
        in_force: BTreeMap::new(),
        forced: BTreeMap::new(),
        yields_left: 0,
        clock_draws_left: 0,
        active: false,
        work: 0,
        stalls_left: 0,
        fn_counts: BTreeMap::new(),
        hold_counts: BTreeMap::new(),
    });
}

pub(crate) static ANCHOR: u8 = 0;

fn task_id() -> usize {
    usize::from(shuttle::current::me())
}

fn sig(site: u64) {
    let t = task_id() as u64;
    STATE.with(|s| {
        let mut s = s.borrow_mut();
        let mut h = s.stats.interleaving_sig ^ 0xcbf2_9ce4_8422_2325;
        for v in [t, site] {
            h ^= v;
            h = h.wrapping_mul(0x0000_0100_0000_01B3);
        }
        s.stats.interleaving_sig = h;
    });
}

/// Called by the harness at the start of every shuttle execution.
pub fn begin_execution(cfg: ExecConfig) {
    STATE.with(|s| {
        let mut s = s.borrow_mut();
        s.yields_left = cfg.probe_yield_budget;
        s.clock_draws_left = 2000;
        s.stalls_left = cfg.stall_budget;
        s.fn_counts.clear();
        s.hold_counts.clear();
        s.cfg = cfg;
        s.stats = ExecStats::default();
        s.in_force.clear();
        s.forced.clear();
        s.active = true;
    });
}

/// Called by the harness at the end of every shuttle execution.
pub fn end_execution() -> ExecStats {
    STATE.with(|s| {
        let mut s = s.borrow_mut();
        s.active = false;
        std::mem::take(&mut s.stats)
    })
}

/// Reach counter and (seeded) scheduling point. `site` must be one of PROBE_SITES.
pub fn probe(site: &'static str) {
    let idx = PROBE_SITES.iter().position(|s| *s == site);
    let may_yield = STATE.with(|s| {
        let mut s = s.borrow_mut();
        if !s.active {
            return false;
        }
        *s.stats.probe_hits.entry(site).or_insert(0) += 1;
        // the work budget belongs to the thread that runs the pre-screen (the execution's main task): a helper
        // thread the library might spawn must not be the one that unwinds
        if idx == Some(0) && s.cfg.schedule_call_limit > 0 && task_id() == 0 {
            s.work += 1;
            if s.work > s.cfg.schedule_call_limit {
                s.work = 0;
                drop(s);
                panic!("oh_verif: work budget exceeded");
            }
        }
        match idx {
            Some(i) => s.cfg.probe_sites_enabled & (1 << i) != 0 && s.yields_left > 0 && s.cfg.probe_yield_permille > 0,
            None => false,
        }
    });
    // (at most CLOCK_DRAWS coin flips per execution: every flip is a step of the recorded schedule, and a long
    // scan hits the schedule_at probe millions of times)
    let jump = STATE.with(|s| {
        let mut s = s.borrow_mut();
        if s.active && s.cfg.clock_jump_permille > 0 && s.clock_draws_left > 0 {
            s.clock_draws_left -= 1;
            s.cfg.clock_jump_permille
        } else {
            0
        }
    });
    if jump > 0 {
        use shuttle::rand::RngCore;
        let r = shuttle::rand::thread_rng().next_u64();
        if (r % 1000) < jump as u64 {
            // 1 ms, 60 ms, 1.1 s, 61 s, 1 h 1 s, 25 h
            let d = [1u64, 60, 1_100, 61_000, 3_601_000, 90_000_000][((r >> 16) % 6) as usize];
            time::advance(std::time::Duration::from_millis(d));
            STATE.with(|s| s.borrow_mut().stats.clock_jumps += 1);
        }
    }
    if !may_yield {
        return;
    }
    // the coin comes from the scheduler's own random stream, so it is part of
    // the recorded schedule and replays exactly
    use shuttle::rand::RngCore;
    let coin: u32 = (shuttle::rand::thread_rng().next_u64() % 1000) as u32;
    let p = STATE.with(|s| s.borrow().cfg.probe_yield_permille);
    if coin < p {
        STATE.with(|s| {
            let mut s = s.borrow_mut();
            s.yields_left = s.yields_left.saturating_sub(1);
            s.stats.probe_yields += 1;
        });
        sig(idx.unwrap_or(99) as u64 + 1);
        shuttle::thread::sleep(std::time::Duration::from_secs(0));
    }
}

fn mix64(a: u64, b: u64) -> u64 {
    let mut z = a ^ b.wrapping_mul(0x9E37_79B9_7F4A_7C15);
    z = (z ^ (z >> 30)).wrapping_mul(0xBF58_476D_1CE4_E5B9);
    z = (z ^ (z >> 27)).wrapping_mul(0x94D0_49BB_1331_11EB);
    z ^ (z >> 31)
}

/// First statement of every non-const `fn` of the generated tree (inserted by bin/gen-shadow; nothing of it is in
/// /repo): the "slow or stalled thread" fault. Inert (no scheduling step, no random draw) unless the running
/// execution enabled it; see `ExecConfig::stall_period`.
#[inline]
pub fn stall_point() {
    let n = STATE
        .try_with(|s| {
            let Ok(mut s) = s.try_borrow_mut() else { return 0 };
            if !s.active || s.cfg.stall_period == 0 {
                return 0;
            }
            s.stats.fn_entries += 1;
            if s.stalls_left == 0 {
                return 0;
            }
            let t = task_id();
            if s.cfg.stall_tasks & (1 << (t % 32)) == 0 {
                return 0;
            }
            let k = {
                let c = s.fn_counts.entry(t).or_insert(0);
                *c += 1;
                *c
            };
            let h = mix64(s.cfg.stall_seed ^ (t as u64).wrapping_mul(0xD6E8_FEB8_6659_FD93), k);
            if h % s.cfg.stall_period as u64 != 0 {
                return 0;
            }
            s.stalls_left -= 1;
            s.stats.stalls += 1;
            let n = [1u32, 4, 16, 64][((h >> 40) % 4) as usize];
            s.stats.stall_switches += n as u64;
            n
        })
        .unwrap_or(0);
    if n == 0 || std::thread::panicking() {
        return;
    }
    sig(200);
    for _ in 0..n {
        shuttle::thread::sleep(std::time::Duration::from_secs(0));
    }
}

/// Called by the shim's `Mutex` / `RwLock` right after an acquisition: the "slow holder" form of the stall fault
/// (`ExecConfig::hold_permille`; same budget, same rule: a function of the configuration and of the thread's own
/// progress, no random draw).
pub fn hold_point() {
    let n = STATE
        .try_with(|s| {
            let Ok(mut s) = s.try_borrow_mut() else { return 0 };
            if !s.active || s.cfg.hold_permille == 0 || s.stalls_left == 0 {
                return 0;
            }
            let t = task_id();
            if s.cfg.stall_tasks & (1 << (t % 32)) == 0 {
                return 0;
            }
            let k = {
                let c = s.hold_counts.entry(t).or_insert(0);
                *c += 1;
                *c
            };
            let h = mix64(s.cfg.stall_seed ^ 0x5EED_0F_4011D ^ (t as u64).wrapping_mul(0xD6E8_FEB8_6659_FD93), k);
            if h % 1000 >= s.cfg.hold_permille as u64 {
                return 0;
            }
            s.stalls_left -= 1;
            s.stats.holds += 1;
            let n = [4u32, 16, 64][((h >> 40) % 3) as usize];
            s.stats.stall_switches += n as u64;
            n
        })
        .unwrap_or(0);
    if n == 0 || std::thread::panicking() {
        return;
    }
    sig(201);
    for _ in 0..n {
        shuttle::thread::sleep(std::time::Duration::from_secs(0));
    }
}

/// Seam for process-wide state inside *dependencies* (today: pest's two global knobs, `set_call_limit` and
/// `set_error_detail`). The generated tree builds such a dependency from a copy of its registry source in which
/// `core::sync::atomic` is replaced by this module: plain atomics whose every operation is a scheduling point
/// while a simulated execution is running, and nothing else outside one (the same crate also runs inside
/// proc-macros at build time).
pub mod dep {
    pub mod atomic {
        pub use core::sync::atomic::Ordering;
        use core::sync::atomic as real;

        fn sp() {
            let active = crate::STATE.try_with(|s| s.try_borrow().map(|s| s.active).unwrap_or(false)).unwrap_or(false);
            if active && !std::thread::panicking() {
                crate::STATE.with(|s| s.borrow_mut().stats.dep_atomic_ops += 1);
                shuttle::thread::sleep(std::time::Duration::from_secs(0));
            }
        }

        macro_rules! dep_atomic {
            ($name:ident, $t:ty) => {
                #[derive(Debug, Default)]
                pub struct $name(real::$name);
                impl $name {
                    pub const fn new(v: $t) -> Self {
                        Self(real::$name::new(v))
                    }
                    pub fn load(&self, o: Ordering) -> $t {
                        sp();
                        self.0.load(o)
                    }
                    pub fn store(&self, v: $t, o: Ordering) {
                        sp();
                        self.0.store(v, o)
                    }
                    pub fn swap(&self, v: $t, o: Ordering) -> $t {
                        sp();
                        self.0.swap(v, o)
                    }
                    pub fn compare_exchange(&self, c: $t, n: $t, s: Ordering, f: Ordering) -> Result<$t, $t> {
                        sp();
                        self.0.compare_exchange(c, n, s, f)
                    }
                    pub fn compare_exchange_weak(&self, c: $t, n: $t, s: Ordering, f: Ordering) -> Result<$t, $t> {
                        sp();
                        self.0.compare_exchange(c, n, s, f)
                    }
                    pub fn get_mut(&mut self) -> &mut $t {
                        self.0.get_mut()
                    }
                    pub fn into_inner(self) -> $t {
                        self.0.into_inner()
                    }
                }
            };
        }
        dep_atomic!(AtomicUsize, usize);
        dep_atomic!(AtomicBool, bool);
        dep_atomic!(AtomicU32, u32);
        dep_atomic!(AtomicU64, u64);
        impl AtomicUsize {
            pub fn fetch_add(&self, v: usize, o: Ordering) -> usize {
                sp();
                self.0.fetch_add(v, o)
            }
            pub fn fetch_sub(&self, v: usize, o: Ordering) -> usize {
                sp();
                self.0.fetch_sub(v, o)
            }
        }
    }
}

/// `std::thread` as the simulator provides it (used by the substituted source tree).
pub mod thread {
    pub use shuttle::thread::*;
}

pub use shuttle::thread_local;

pub mod sync {
    use super::{sig, task_id, STATE};
    use std::ops::Deref;

    // Everything of std::sync that is not a scheduling concern is passed through unchanged
    // (Arc, Weak, PoisonError, LockResult, TryLockError, ...); explicit items below shadow the glob.
    pub use std::sync::*;

    pub use shuttle::sync::{Barrier, BarrierWaitResult, Condvar, MutexGuard, RwLockReadGuard, RwLockWriteGuard, WaitTimeoutResult};

    /// shuttle's `Mutex` / `RwLock` plus the "slow holder" fault: in a stall run the thread that has just
    /// acquired the lock may be descheduled for 4-64 context switches while it holds it (`hold_point`), which is
    /// what makes `try_lock` fallbacks and long waits behind a writer reachable. Guards are shuttle's own.
    pub struct Mutex<T: ?Sized>(shuttle::sync::Mutex<T>);
    impl<T> Mutex<T> {
        pub const fn new(t: T) -> Self {
            Mutex(shuttle::sync::Mutex::new(t))
        }
        pub fn into_inner(self) -> LockResult<T> {
            self.0.into_inner()
        }
    }
    impl<T: ?Sized> Mutex<T> {
        pub fn lock(&self) -> LockResult<MutexGuard<'_, T>> {
            let r = self.0.lock();
            super::hold_point();
            r
        }
        pub fn try_lock(&self) -> TryLockResult<MutexGuard<'_, T>> {
            let r = self.0.try_lock();
            if !matches!(r, Err(TryLockError::WouldBlock)) {
                super::hold_point();
            }
            r
        }
        pub fn get_mut(&mut self) -> LockResult<&mut T> {
            self.0.get_mut()
        }
        pub fn clear_poison(&self) {
            self.0.clear_poison()
        }
    }
    impl<T: Default> Default for Mutex<T> {
        fn default() -> Self {
            Mutex::new(T::default())
        }
    }
    impl<T> From<T> for Mutex<T> {
        fn from(t: T) -> Self {
            Mutex::new(t)
        }
    }
    impl<T: ?Sized + std::fmt::Debug> std::fmt::Debug for Mutex<T> {
        fn fmt(&self, f: &mut std::fmt::Formatter<'_>) -> std::fmt::Result {
            self.0.fmt(f)
        }
    }

    pub struct RwLock<T: ?Sized>(shuttle::sync::RwLock<T>);
    impl<T> RwLock<T> {
        pub const fn new(t: T) -> Self {
            RwLock(shuttle::sync::RwLock::new(t))
        }
        pub fn into_inner(self) -> LockResult<T> {
            self.0.into_inner()
        }
    }
    impl<T: ?Sized> RwLock<T> {
        pub fn read(&self) -> LockResult<RwLockReadGuard<'_, T>> {
            let r = self.0.read();
            super::hold_point();
            r
        }
        pub fn write(&self) -> LockResult<RwLockWriteGuard<'_, T>> {
            let r = self.0.write();
            super::hold_point();
            r
        }
        pub fn try_read(&self) -> TryLockResult<RwLockReadGuard<'_, T>> {
            let r = self.0.try_read();
            if !matches!(r, Err(TryLockError::WouldBlock)) {
                super::hold_point();
            }
            r
        }
        pub fn try_write(&self) -> TryLockResult<RwLockWriteGuard<'_, T>> {
            let r = self.0.try_write();
            if !matches!(r, Err(TryLockError::WouldBlock)) {
                super::hold_point();
            }
            r
        }
        pub fn get_mut(&mut self) -> LockResult<&mut T> {
            self.0.get_mut()
        }
        pub fn clear_poison(&self) {
            self.0.clear_poison()
        }
    }
    impl<T: Default> Default for RwLock<T> {
        fn default() -> Self {
            RwLock::new(T::default())
        }
    }
    impl<T> From<T> for RwLock<T> {
        fn from(t: T) -> Self {
            RwLock::new(t)
        }
    }
    impl<T: ?Sized + std::fmt::Debug> std::fmt::Debug for RwLock<T> {
        fn fmt(&self, f: &mut std::fmt::Formatter<'_>) -> std::fmt::Result {
            self.0.fmt(f)
        }
    }

    fn sp() {
        if !std::thread::panicking() {
            shuttle::thread::sleep(std::time::Duration::from_secs(0));
        }
    }

    // Observations of an Arc's reference counts are scheduling points (the generated tree routes
    // `Arc::strong_count(..)` etc. here): the count can change between two of them.
    pub fn arc_strong_count<T: ?Sized>(a: &std::sync::Arc<T>) -> usize {
        sp();
        std::sync::Arc::strong_count(a)
    }
    pub fn arc_weak_count<T: ?Sized>(a: &std::sync::Arc<T>) -> usize {
        sp();
        std::sync::Arc::weak_count(a)
    }
    pub fn arc_get_mut<T: ?Sized>(a: &mut std::sync::Arc<T>) -> Option<&mut T> {
        sp();
        std::sync::Arc::get_mut(a)
    }
    pub fn arc_make_mut<T: Clone>(a: &mut std::sync::Arc<T>) -> &mut T {
        sp();
        std::sync::Arc::make_mut(a)
    }
    pub fn arc_try_unwrap<T>(a: std::sync::Arc<T>) -> Result<T, std::sync::Arc<T>> {
        sp();
        std::sync::Arc::try_unwrap(a)
    }
    pub fn arc_into_inner<T>(a: std::sync::Arc<T>) -> Option<T> {
        sp();
        std::sync::Arc::into_inner(a)
    }

    /// every atomic operation is a scheduling point
    pub mod atomic {
        pub use shuttle::sync::atomic::*;
    }

    pub mod mpsc {
        pub use shuttle::sync::mpsc::*;
    }

    /// Shuttle-backed stand-in for `std::sync::LazyLock` in `static` position.
    pub struct LazyLock<T: Sync + 'static> {
        inner: shuttle::lazy_static::Lazy<T>,
    }

    impl<T: Sync + 'static> LazyLock<T> {
        pub const fn new(init: fn() -> T) -> Self {
            LazyLock { inner: shuttle::lazy_static::Lazy::new(init) }
        }

        pub fn force(this: &Self) -> &T {
            // Safety: the repository only ever declares these as `static`s, which is
            // also what shuttle's Lazy requires.
            let this: &'static Self = unsafe { &*(this as *const Self) };
            // position-independent identity of the static (ASLR moves the image, not the layout)
            let addr = (this as *const Self as usize).wrapping_sub(&super::ANCHOR as *const u8 as usize);
            let first = STATE.with(|s| {
                let mut s = s.borrow_mut();
                s.stats.lazy_forces += 1;
                let done = s.forced.get(&addr).copied().unwrap_or(false);
                if done {
                    return false;
                }
                let n = s.in_force.entry(addr).or_insert(0);
                *n += 1;
                if *n >= 2 {
                    s.stats.contended_first_use += 1;
                } else {
                    let t = task_id();
                    s.stats.first_use_order.push((std::any::type_name::<T>(), addr, t));
                }
                true
            });
            if first {
                sig(1000 + (addr as u64 & 0xffff));
            }
            let v = this.inner.get();
            if first {
                STATE.with(|s| {
                    let mut s = s.borrow_mut();
                    if let Some(n) = s.in_force.get_mut(&addr) {
                        *n = n.saturating_sub(1);
                    }
                    s.forced.insert(addr, true);
                });
            }
            v
        }
    }

    impl<T: Sync + 'static> Deref for LazyLock<T> {
        type Target = T;
        fn deref(&self) -> &T {
            LazyLock::force(self)
        }
    }

    /// Shuttle-backed stand-in for `std::sync::Once`.
    pub struct Once {
        inner: shuttle::sync::Once,
    }

    impl Once {
        #[allow(clippy::new_without_default)]
        pub const fn new() -> Self {
            Once { inner: shuttle::sync::Once::new() }
        }
        pub fn call_once<F: FnOnce()>(&self, f: F) {
            STATE.with(|s| s.borrow_mut().stats.once_calls += 1);
            sig(2000);
            self.inner.call_once(f)
        }
        pub fn is_completed(&self) -> bool {
            self.inner.is_completed()
        }
    }

    /// Shuttle-backed stand-in for `std::sync::OnceLock` (not used by the repository today;
    /// provided so that a plausible refactoring of the lazies is still under the simulator's control).
    pub struct OnceLock<T: Sync + Send + 'static> {
        once: shuttle::sync::Once,
        cell: shuttle::sync::Mutex<Option<&'static T>>,
    }

    impl<T: Sync + Send + 'static> OnceLock<T> {
        pub const fn new() -> Self {
            OnceLock { once: shuttle::sync::Once::new(), cell: shuttle::sync::Mutex::new(None) }
        }
        pub fn get(&self) -> Option<&T> {
            *self.cell.lock().unwrap()
        }
        pub fn set(&self, value: T) -> Result<(), T> {
            let mut slot = Some(value);
            self.once.call_once(|| {
                let v: &'static T = Box::leak(Box::new(slot.take().unwrap()));
                *self.cell.lock().unwrap() = Some(v);
            });
            match slot {
                None => Ok(()),
                Some(v) => Err(v),
            }
        }
        pub fn get_or_init<F: FnOnce() -> T>(&self, f: F) -> &T {
            self.once.call_once(|| {
                let v: &'static T = Box::leak(Box::new(f()));
                *self.cell.lock().unwrap() = Some(v);
            });
            self.cell.lock().unwrap().expect("initialised")
        }
    }

    impl<T: Sync + Send + 'static> Default for OnceLock<T> {
        fn default() -> Self {
            Self::new()
        }
    }
}

/// `std::time` as the simulator provides it (the generated tree routes `std::time` here): `Instant::now()` and
/// `SystemTime::now()` read a simulated clock that the harness owns. The clock advances by one microsecond per
/// reading, by whatever the harness adds between operations (`advance`), and — when the execution's configuration
/// says so — by a seeded jump at a probe (a thread that was "descheduled for a while").
pub mod time {
    use std::cell::Cell;
    use std::ops::{Add, AddAssign, Sub, SubAssign};
    pub use std::time::Duration;

    std::thread_local! {
        // nanoseconds since the simulated boot; one per OS thread = one per forked execution
        static NOW: Cell<u64> = const { Cell::new(1_000_000_000_000) };
        static READS: Cell<u64> = const { Cell::new(0) };
        static JUMPS: Cell<u64> = const { Cell::new(0) };
    }
    /// simulated wall clock at boot: 2024-06-01T00:00:00Z
    const EPOCH_AT_BOOT_NANOS: u128 = 1_717_200_000_000_000_000 - 1_000_000_000_000;

    fn read() -> u64 {
        READS.with(|r| r.set(r.get() + 1));
        NOW.with(|n| {
            n.set(n.get() + 1_000);
            n.get()
        })
    }

    /// harness side: move the simulated clock forward
    pub fn advance(d: Duration) {
        JUMPS.with(|j| j.set(j.get() + 1));
        NOW.with(|n| n.set(n.get().saturating_add(d.as_nanos().min(u64::MAX as u128 / 4) as u64)));
    }
    /// harness side: (clock readings, clock jumps) so far in this process
    pub fn stats() -> (u64, u64) {
        (READS.with(|r| r.get()), JUMPS.with(|j| j.get()))
    }

    /// chrono's clock readings: the generated tree routes `Utc::now()` / `Local::now()` here, so that a change that
    /// asks chrono for the current time reads the simulated clock too (2024-06-01T00:00:00Z at boot)
    pub fn chrono_utc_now() -> chrono::DateTime<chrono::Utc> {
        let n = EPOCH_AT_BOOT_NANOS + read() as u128;
        chrono::DateTime::from_timestamp((n / 1_000_000_000) as i64, (n % 1_000_000_000) as u32).expect("simulated clock out of chrono's range")
    }
    pub fn chrono_local_now() -> chrono::DateTime<chrono::Local> {
        chrono_utc_now().with_timezone(&chrono::Local)
    }

    #[derive(Clone, Copy, Debug, PartialEq, Eq, PartialOrd, Ord, Hash)]
    pub struct Instant(u64);

    impl Instant {
        pub fn now() -> Instant {
            Instant(read())
        }
        pub fn elapsed(&self) -> Duration {
            Instant::now().saturating_duration_since(*self)
        }
        pub fn duration_since(&self, earlier: Instant) -> Duration {
            self.saturating_duration_since(earlier)
        }
        pub fn saturating_duration_since(&self, earlier: Instant) -> Duration {
            Duration::from_nanos(self.0.saturating_sub(earlier.0))
        }
        pub fn checked_duration_since(&self, earlier: Instant) -> Option<Duration> {
            self.0.checked_sub(earlier.0).map(Duration::from_nanos)
        }
        pub fn checked_add(&self, d: Duration) -> Option<Instant> {
            u64::try_from(d.as_nanos()).ok().and_then(|n| self.0.checked_add(n)).map(Instant)
        }
        pub fn checked_sub(&self, d: Duration) -> Option<Instant> {
            u64::try_from(d.as_nanos()).ok().and_then(|n| self.0.checked_sub(n)).map(Instant)
        }
    }
    impl Add<Duration> for Instant {
        type Output = Instant;
        fn add(self, d: Duration) -> Instant {
            self.checked_add(d).expect("overflow when adding duration to instant")
        }
    }
    impl Sub<Duration> for Instant {
        type Output = Instant;
        fn sub(self, d: Duration) -> Instant {
            self.checked_sub(d).expect("overflow when subtracting duration from instant")
        }
    }
    impl Sub<Instant> for Instant {
        type Output = Duration;
        fn sub(self, o: Instant) -> Duration {
            self.saturating_duration_since(o)
        }
    }
    impl AddAssign<Duration> for Instant {
        fn add_assign(&mut self, d: Duration) {
            *self = *self + d;
        }
    }
    impl SubAssign<Duration> for Instant {
        fn sub_assign(&mut self, d: Duration) {
            *self = *self - d;
        }
    }

    #[derive(Clone, Copy, Debug, PartialEq, Eq, PartialOrd, Ord, Hash)]
    pub struct SystemTime(u128);

    pub const UNIX_EPOCH: SystemTime = SystemTime(0);

    #[derive(Clone, Debug)]
    pub struct SystemTimeError(Duration);
    impl SystemTimeError {
        pub fn duration(&self) -> Duration {
            self.0
        }
    }
    impl std::fmt::Display for SystemTimeError {
        fn fmt(&self, f: &mut std::fmt::Formatter<'_>) -> std::fmt::Result {
            write!(f, "second time provided was later than self")
        }
    }
    impl std::error::Error for SystemTimeError {}

    impl SystemTime {
        pub const UNIX_EPOCH: SystemTime = SystemTime(0);
        pub fn now() -> SystemTime {
            SystemTime(EPOCH_AT_BOOT_NANOS + read() as u128)
        }
        pub fn duration_since(&self, earlier: SystemTime) -> Result<Duration, SystemTimeError> {
            let nanos = |n: u128| Duration::new((n / 1_000_000_000) as u64, (n % 1_000_000_000) as u32);
            if self.0 >= earlier.0 {
                Ok(nanos(self.0 - earlier.0))
            } else {
                Err(SystemTimeError(nanos(earlier.0 - self.0)))
            }
        }
        pub fn elapsed(&self) -> Result<Duration, SystemTimeError> {
            SystemTime::now().duration_since(*self)
        }
        pub fn checked_add(&self, d: Duration) -> Option<SystemTime> {
            self.0.checked_add(d.as_nanos()).map(SystemTime)
        }
        pub fn checked_sub(&self, d: Duration) -> Option<SystemTime> {
            self.0.checked_sub(d.as_nanos()).map(SystemTime)
        }
    }
    impl Add<Duration> for SystemTime {
        type Output = SystemTime;
        fn add(self, d: Duration) -> SystemTime {
            self.checked_add(d).expect("overflow when adding duration to time")
        }
    }
    impl Sub<Duration> for SystemTime {
        type Output = SystemTime;
        fn sub(self, d: Duration) -> SystemTime {
            self.checked_sub(d).expect("overflow when subtracting duration from time")
        }
    }
}

pub mod io {
    use super::STATE;
    use std::io::{self, Read};

    /// Reader wrapper for the production holiday decoder: injects short reads
    /// and `Interrupted` results (both are legal for any `Read`), never a
    /// terminal error — the decode loop answers those with `expect()` by design,
    /// the data being embedded.
    pub struct SimRead<R> {
        inner: R,
    }

    impl<R: Read> SimRead<R> {
        pub fn new(inner: R) -> Self {
            SimRead { inner }
        }
    }

    impl<R: Read> Read for SimRead<R> {
        fn read(&mut self, buf: &mut [u8]) -> io::Result<usize> {
            let (short, eintr, active) = STATE.with(|s| {
                let mut s = s.borrow_mut();
                s.stats.reads += 1;
                (s.cfg.read_short_permille, s.cfg.read_eintr_permille, s.active)
            });
            if !active || buf.is_empty() || (short == 0 && eintr == 0) {
                return self.inner.read(buf);
            }
            use shuttle::rand::RngCore;
            let coin: u32 = (shuttle::rand::thread_rng().next_u64() % 1000) as u32;
            if coin < eintr {
                STATE.with(|s| s.borrow_mut().stats.eintr_reads += 1);
                return Err(io::ErrorKind::Interrupted.into());
            }
            if coin < eintr + short && buf.len() > 1 {
                let n: usize = 1 + (shuttle::rand::thread_rng().next_u64() % (buf.len() as u64 - 1)) as usize;
                STATE.with(|s| s.borrow_mut().stats.short_reads += 1);
                return self.inner.read(&mut buf[..n]);
            }
            self.inner.read(buf)
        }
    }
}

/// Current hit count of a probe site in the running execution.
pub fn probe_hits(site: &str) -> u64 {
    STATE.with(|s| s.borrow().stats.probe_hits.iter().find(|(k, _)| **k == site).map(|(_, v)| *v).unwrap_or(0))
}

/// Restart the work budget (see `ExecConfig::schedule_call_limit`).
pub fn reset_work_budget() {
    STATE.with(|s| s.borrow_mut().work = 0);
}
