//! Independent oracle for C10: the harness parses the repository's holiday
//! data files itself, at run time, from /repo's working tree.

use std::collections::{BTreeMap, BTreeSet};

use chrono::NaiveDate;

pub struct DataFiles {
    pub public: BTreeMap<String, BTreeSet<NaiveDate>>,
    pub school: BTreeMap<String, BTreeSet<NaiveDate>>,
}

fn load(path: &str) -> BTreeMap<String, BTreeSet<NaiveDate>> {
    let text = std::fs::read_to_string(path).unwrap_or_else(|e| {
        eprintln!("harness error: cannot read {path}: {e}");
        std::process::exit(2)
    });
    let mut m: BTreeMap<String, BTreeSet<NaiveDate>> = BTreeMap::new();
    for (i, line) in text.lines().enumerate() {
        if line.trim().is_empty() {
            continue;
        }
        let mut it = line.splitn(2, ' ');
        let region = it.next().unwrap_or("");
        let date = it.next().and_then(|d| NaiveDate::parse_from_str(d.trim(), "%Y-%m-%d").ok());
        match date {
            Some(d) => {
                m.entry(region.to_string()).or_default().insert(d);
            }
            None => {
                eprintln!("harness error: {path}:{}: cannot parse {line:?}", i + 1);
                std::process::exit(2)
            }
        }
    }
    m
}

impl DataFiles {
    pub fn load() -> Self {
        let repo = std::env::var("OH_REPO").unwrap_or_else(|_| "/repo".into());
        DataFiles {
            public: load(&format!("{repo}/opening-hours/data/holidays_public.txt")),
            school: load(&format!("{repo}/opening-hours/data/holidays_school.txt")),
        }
    }
}

pub fn digest<'a>(dates: impl Iterator<Item = &'a NaiveDate>) -> String {
    use chrono::Datelike;
    let mut f = simcore::Fp::default();
    let mut n = 0u64;
    for d in dates {
        f.i64(d.num_days_from_ce() as i64);
        n += 1;
    }
    format!("{n}:{:016x}", f.0)
}
