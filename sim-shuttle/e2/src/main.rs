//! Engine E2 leg A — thread-schedule simulator on shuttle (properties C18 and
//! the first-use / decode-fault part of C10). Built with `--cfg oh_verif`.
//!
//! Process structure: the coordinator spawns W single-threaded worker
//! processes; a worker never calls into the library itself — every simulated
//! execution, every sequential reference pass and the pool pre-screen run in a
//! forked child, i.e. in a process in which every static of the library is in
//! its initial state. Workers report one JSON line per run; the coordinator
//! aggregates (commutatively, so the result does not depend on W).
//!
//! usage: e2 <c18|c10> <quick|thorough|smoke> | e2 replay <file>
//!        e2 fingerprint <c18|c10> <runs> | e2 pools
//!        e2 worker <c18|c10> <runs> <w> <W> <stopfile>      (internal)

mod datafiles;
mod eval;
mod pools;
mod proc;
mod run;
mod sched;
mod shrink;
mod work;

use std::io::{BufRead, BufReader, Write};
use std::process::{Command, Stdio};
use std::sync::Mutex;
use std::time::Instant;

use shuttle::scheduler::RoundRobinScheduler;
use simcore::{json, Agg, KnownFindings, Report, Rng, Value, Violation};

use crate::pools::Pools;
use crate::run::{execute, fingerprint, judge, Refs};
use crate::work::Workload;

const ENGINE_TAG_C18: u64 = 0xE2A;
const ENGINE_TAG_C10: u64 = 0xE2C;

fn screen_here() -> Result<pools::Screened, String> {
    let slot: std::sync::Arc<Mutex<Option<pools::Screened>>> = Default::default();
    let s2 = slot.clone();
    let runner = shuttle::Runner::new(RoundRobinScheduler::new(1), {
        let mut c = shuttle::Config::new();
        c.stack_size = 8 << 20;
        c.failure_persistence = shuttle::FailurePersistence::None;
        c.max_steps = shuttle::MaxSteps::None;
        c.silence_warnings = true;
        c
    });
    simcore::catch(move || {
        runner.run(move || {
            oh_verif_rt::begin_execution(oh_verif_rt::ExecConfig { schedule_call_limit: pools::MAX_SCHEDULE_CALLS, ..Default::default() });
            let p = Pools::screen_in_execution();
            let _ = oh_verif_rt::end_execution();
            *s2.lock().unwrap() = Some(p);
        });
    })?;
    let p = slot.lock().unwrap().take();
    p.ok_or_else(|| "pools not built".to_string())
}

fn build_pools() -> Pools {
    // a worker started by the coordinator reads the pools the coordinator screened (once, in its own
    // forked child) instead of screening again
    if let Ok(path) = std::env::var("VERIF_E2_POOLS") {
        match std::fs::read_to_string(&path).ok().and_then(|s| serde_json::from_str::<pools::Screened>(&s).ok()) {
            Some(s) => return Pools::from_screened(s),
            None => {
                println!("harness error: cannot read the screened pools from {path}");
                std::process::exit(2)
            }
        }
    }
    screen_pools_to(None)
}

fn screen_pools_to(save: Option<&std::path::Path>) -> Pools {
    match proc::in_child(simcore::run_timeout().max(std::time::Duration::from_secs(60)), screen_here) {
        Ok(Ok(s)) => {
            if let Some(p) = save {
                if let Err(e) = std::fs::write(p, serde_json::to_string(&s).unwrap_or_default()) {
                    println!("harness error: cannot write {}: {e}", p.display());
                    std::process::exit(2)
                }
            }
            Pools::from_screened(s)
        }
        // The pre-screen is the first sequential use of the library in a fresh process. If it does not come back
        // (hang), dies (crash) or is aborted by the simulator (deadlock among threads the library itself started,
        // a panic outside any evaluation), no result was returned for operations that have one on the unchanged
        // tree: that is reported as a violation of the simulated property, like a run stopped by the watchdog.
        Ok(Err(m)) => prescreen_violation(if m.contains("deadlock") { "deadlock" } else { "panic" }, &m),
        Err(proc::ChildErr::Hang) => prescreen_violation("hang", "the sequential pre-screen of the expression pool did not finish"),
        Err(proc::ChildErr::Crashed(why)) => prescreen_violation("crash", &format!("the process running the sequential pre-screen died: {why}")),
        Err(proc::ChildErr::Harness(m)) => {
            println!("harness error: pre-screening the expression pool failed: {m}");
            std::process::exit(2)
        }
    }
}

fn prescreen_violation(class: &str, detail: &str) -> ! {
    let property = if std::env::args().nth(1).as_deref() == Some("c10") || std::env::args().nth(2).as_deref() == Some("c10") { "C10" } else { "C18" };
    let seed = simcore::verif_seed();
    let path = simcore::verif_root().join("replays").join(format!("{property}-seed{seed}-prescreen.json"));
    simcore::write_json(&path, &json!({"property": property, "seed": seed, "class": class, "detail": detail, "scenario": {"engine": "e2", "prescreen": true}}));
    println!("VIOLATION property={property} replay={}", path.display());
    println!("  class={class} (sequential pre-screen of the expression pool, fresh process)");
    println!("  detail: {detail}");
    std::process::exit(1)
}

struct Env {
    pools: Pools,
    refs: Refs,
    property: &'static str,
    mode: &'static str,
    tag: u64,
    seed: u64,
}

fn make_env(mode: &'static str) -> Env {
    Env {
        pools: build_pools(),
        refs: Refs::new(),
        property: if mode == "c18" { "C18" } else { "C10" },
        mode,
        tag: if mode == "c18" { ENGINE_TAG_C18 } else { ENGINE_TAG_C10 },
        seed: simcore::verif_seed(),
    }
}

fn mode_of(s: Option<&String>) -> &'static str {
    match s.map(|s| s.as_str()) {
        Some("c10") => "c10",
        _ => "c18",
    }
}

/// One run in a worker: returns the JSON record sent to the coordinator.
fn run_one(env: &Env, idx: u64) -> Value {
    let mut rng = Rng::derive(env.seed, env.tag, idx);
    let w = work::generate_for(&mut rng, &env.pools, env.mode, idx);
    let (fail, ex) = match env.refs.ensure(&w) {
        Err(f) => (Some(f), None),
        Ok(()) => {
            let ex = execute(&w);
            (judge(&w, &ex, &env.refs, &env.pools.data), Some(ex))
        }
    };
    let fp = ex.as_ref().map(fingerprint).unwrap_or(0);
    let mut rec = json!({"idx": idx, "fp": fp});
    if let Some(ex) = &ex {
        rec["steps"] = json!(ex.schedule.tasks.len());
        rec["switches"] = json!(ex.schedule.context_switches());
        if let Ok(o) = &ex.out {
            let st = &o.stats;
            let threads_first: std::collections::BTreeSet<u64> = st.first_use_order.iter().map(|x| x.2).collect();
            let mut fo = simcore::Fp::default();
            for (n, a, t) in &st.first_use_order {
                fo.str(n);
                fo.u64(*a);
                fo.u64(*t);
            }
            let nontrivial = ex.schedule.context_switches() >= 2 && (st.contended_first_use > 0 || threads_first.len() >= 2 || st.short_reads + st.eintr_reads > 0 || st.probe_yields > 0 || st.stalls + st.holds > 0);
            let unwound = o.results.iter().flatten().filter(|r| r.contains("PANIC: ")).count();
            rec["nontrivial"] = json!(nontrivial);
            rec["unwound"] = json!(unwound);
            rec["stats"] = json!({
                "probe_hits": st.probe_hits, "probe_yields": st.probe_yields, "lazy_forces": st.lazy_forces, "once_calls": st.once_calls,
                "tables_first_used": st.first_use_order.len(), "first_use_threads": threads_first.len(), "contended": st.contended_first_use,
                "short_reads": st.short_reads, "eintr_reads": st.eintr_reads, "reads": st.reads, "clock_jumps": st.clock_jumps, "clock_reads": st.clock_reads, "dep_atomic_ops": st.dep_atomic_ops,
                "fn_entries": st.fn_entries, "stalls": st.stalls, "holds": st.holds, "stall_switches": st.stall_switches,
                "state_sig": simcore::mix(st.interleaving_sig, ex.schedule.context_switches() as u64), "first_use_sig": fo.0,
            });
        }
    }
    if idx < 2 || (rec["nontrivial"] == json!(true) && idx < 40) {
        rec["sample"] = json!({"workload": w, "context_switches": rec["switches"], "fingerprint": format!("{fp:016x}")});
    }
    if let Some(f) = fail {
        let mut wf = w.clone();
        if let Some(ex) = &ex {
            wf.schedule = Some(ex.schedule.clone());
        }
        let (min_w, min_f) = shrink::minimise(&wf, &f, &env.refs, &env.pools.data);
        rec["violation"] = json!({
            "class": min_f.class, "detail": min_f.detail,
            "scenario": {"engine": "e2", "minimised": min_w, "original_ops": w.threads.iter().map(|t| t.len()).sum::<usize>(), "minimised_ops": min_w.threads.iter().map(|t| t.len()).sum::<usize>(),
                "schedule_steps": min_w.schedule.as_ref().map(|s| s.tasks.len()), "context_switches": min_w.schedule.as_ref().map(|s| s.context_switches())},
        });
    }
    rec
}

fn worker(args: &[String]) -> i32 {
    let mode = mode_of(args.get(2));
    let runs: u64 = args.get(3).and_then(|s| s.parse().ok()).unwrap_or(0);
    let w: u64 = args.get(4).and_then(|s| s.parse().ok()).unwrap_or(0);
    let nw: u64 = args.get(5).and_then(|s| s.parse().ok()).unwrap_or(1).max(1);
    let stopfile = args.get(6).cloned().unwrap_or_default();
    let env = make_env(mode);
    let out = std::io::stdout();
    {
        let mut o = out.lock();
        let _ = writeln!(o, "{}", json!({"pools": {"general": env.pools.exprs.len(), "holiday": env.pools.holiday_exprs.len(), "easter": env.pools.easter_exprs.len(),
            "excluded": env.pools.excluded.iter().map(|(e, w)| json!({"expr": e, "why": w})).collect::<Vec<_>>()}}));
    }
    // interleaved static sharding: worker w executes idx = w, w + W, ... Whatever W is, the set of
    // executed runs is 0..runs (up to the first violation), and each run is a function of idx only.
    // positions runs..runs+extra are the stall runs, idx = STALL_BASE + k
    let extra: u64 = std::env::var("VERIF_E2_STALL_RUNS").ok().and_then(|s| s.parse().ok()).unwrap_or(0);
    let mut pos = w;
    let mut stop_at = u64::MAX;
    while pos < runs + extra {
        let idx = if pos < runs { pos } else { work::STALL_BASE + (pos - runs) };
        if pos % (8 * nw) == w {
            if let Ok(s) = std::fs::read_to_string(&stopfile) {
                if let Ok(v) = s.trim().parse::<u64>() {
                    stop_at = stop_at.min(v);
                }
            }
        }
        if idx > stop_at {
            break;
        }
        let rec = run_one(&env, idx);
        let viol = rec.get("violation").is_some();
        {
            let mut o = out.lock();
            let _ = writeln!(o, "{rec}");
            let _ = o.flush();
        }
        if viol {
            stop_at = stop_at.min(idx);
        }
        pos += nw;
    }
    let mut o = out.lock();
    let _ = writeln!(o, "{}", json!({"done": true, "reference_executions": env.refs.executions.load(std::sync::atomic::Ordering::Relaxed)}));
    0
}

fn main() {
    let args: Vec<String> = std::env::args().collect();
    let cmd = args.get(1).map(|s| s.as_str()).unwrap_or("");
    simcore::silence_panics();
    match cmd {
        "c18" | "c10" => {
            let tier = simcore::tier(args.get(2).map(|s| s.as_str()));
            std::process::exit(batch(if cmd == "c18" { "c18" } else { "c10" }, &tier));
        }
        "worker" => std::process::exit(worker(&args)),
        "replay" => {
            let path = args.get(2).cloned().unwrap_or_else(|| {
                eprintln!("usage: e2 replay <file>");
                std::process::exit(2)
            });
            std::process::exit(replay(&path));
        }
        "fingerprint" => {
            let mode = mode_of(args.get(2));
            let runs: u64 = args.get(3).and_then(|s| s.parse().ok()).unwrap_or(64);
            let env = make_env(mode);
            for idx in (0..runs).chain(work::STALL_BASE..work::STALL_BASE + runs / 8) {
                let rec = run_one(&env, idx);
                println!("{idx} {:016x} steps={} {}", rec["fp"].as_u64().unwrap_or(0), rec["steps"], rec.get("violation").map(|v| v["class"].to_string()).unwrap_or_else(|| "ok".into()));
            }
        }
        "show" => {
            let mode = mode_of(args.get(2));
            let idx: u64 = args.get(3).and_then(|s| s.parse().ok()).unwrap_or(0);
            let env = make_env(mode);
            let mut rng = Rng::derive(env.seed, env.tag, idx);
            let w = work::generate_for(&mut rng, &env.pools, env.mode, idx);
            println!("{}", serde_json::to_string_pretty(&w).unwrap());
        }
        "opstime" => {
            // development aid: sequential cost of every operation of one generated workload
            let mode = mode_of(args.get(2));
            let idx: u64 = args.get(3).and_then(|s| s.parse().ok()).unwrap_or(0);
            let env = make_env(mode);
            let mut rng = Rng::derive(env.seed, env.tag, idx);
            let w = work::generate_for(&mut rng, &env.pools, env.mode, idx);
            for op in w.threads.iter().flatten() {
                let t0 = Instant::now();
                let mut one = w.clone();
                one.threads = vec![vec![op.clone()]];
                one.threads[0].retain(|o| !matches!(o, work::Op::Send { .. } | work::Op::Recv { .. }));
                let r = env.refs.ensure(&one);
                println!("{:>7.2}s {} {:?}", t0.elapsed().as_secs_f64(), if r.is_ok() { "ok " } else { "ERR" }, format!("{op:?}").chars().take(150).collect::<String>());
            }
        }
        "pools" => {
            let p = build_pools();
            println!("exprs={} holiday={} easter={} countries={} excluded={} lossy_normal={:?} long={:?}", p.exprs.len(), p.holiday_exprs.len(), p.easter_exprs.len(), p.countries.len(), p.excluded.len(), p.lossy_normal_exprs, p.long_exprs.iter().map(|e| e.len()).collect::<Vec<_>>());
            println!("dense expressions: {}", p.dense_exprs.len());
            println!("border pairs: {:?}", p.border_pairs);
            println!("spacing variants: {}", p.spacing_variants.len());
            for (a, b) in p.spacing_variants.iter().take(12) {
                println!("  {a:?} ~ {b:?}");
            }
            for (e, why) in &p.excluded {
                println!("  excluded {e:?}: {why}");
            }
        }
        _ => {
            eprintln!("usage: e2 <c18|c10> <quick|thorough|smoke> | e2 replay <file> | e2 fingerprint <mode> <runs> | e2 pools");
            std::process::exit(2);
        }
    }
}

fn batch(mode: &'static str, tier: &str) -> i32 {
    let property = if mode == "c18" { "C18" } else { "C10" };
    let seed = simcore::verif_seed();
    let known = KnownFindings::load();
    let runs = simcore::env_u64(
        "VERIF_RUNS",
        match (mode, tier) {
            ("c18", "thorough") => 200_000,
            ("c18", "smoke") => 300,
            ("c18", _) => 5_000,
            (_, "thorough") => 30_000,
            (_, "smoke") => 100,
            _ => 3_000,
        },
    );
    // extra runs with the slow-or-stalled-thread fault (work::STALL_BASE): an eighth on top of every tier
    let stall_runs = simcore::env_u64("VERIF_STALL_RUNS", runs / 8);
    let nw = simcore::workers().max(1) as u64;
    let t0 = Instant::now();
    let stopfile = simcore::verif_root().join("target").join(format!("e2-stop-{}-{}", mode, std::process::id()));
    let _ = std::fs::create_dir_all(stopfile.parent().unwrap());
    let _ = std::fs::remove_file(&stopfile);
    let exe = std::env::current_exe().expect("current_exe");
    // the expression pool is screened once, here; the workers read the result
    let pools_file = simcore::verif_root().join("target").join(format!("e2-pools-{}-{}.json", mode, std::process::id()));
    let _ = screen_pools_to(Some(&pools_file));
    let total = Mutex::new(Agg::default());
    let first_use: Mutex<std::collections::BTreeSet<u64>> = Default::default();
    let pools_info: Mutex<Option<Value>> = Mutex::new(None);
    let ref_execs = std::sync::atomic::AtomicU64::new(0);
    let worker_failed = std::sync::atomic::AtomicBool::new(false);
    std::thread::scope(|s| {
        for w in 0..nw {
            let (exe, stopfile, total, first_use, pools_info, ref_execs, worker_failed, known, pools_file) = (&exe, &stopfile, &total, &first_use, &pools_info, &ref_execs, &worker_failed, &known, &pools_file);
            s.spawn(move || {
                let mut child = match Command::new(exe)
                    .args(["worker", mode, &runs.to_string(), &w.to_string(), &nw.to_string(), &stopfile.display().to_string()])
                    .env("VERIF_E2_POOLS", pools_file.as_os_str())
                    .env("VERIF_E2_STALL_RUNS", stall_runs.to_string())
                    .stdin(Stdio::null())
                    .stdout(Stdio::piped())
                    .stderr(Stdio::null())
                    .spawn()
                {
                    Ok(c) => c,
                    Err(e) => {
                        println!("harness error: cannot start a worker: {e}");
                        worker_failed.store(true, std::sync::atomic::Ordering::Relaxed);
                        return;
                    }
                };
                let mut agg = Agg::default();
                let mut done = false;
                let rd = BufReader::new(child.stdout.take().unwrap());
                for line in rd.lines() {
                    let Ok(line) = line else { break };
                    if line.starts_with("harness error") {
                        println!("{line}");
                        continue;
                    }
                    let Ok(rec) = serde_json::from_str::<Value>(&line) else { continue };
                    if rec.get("done").is_some() {
                        done = true;
                        ref_execs.fetch_add(rec["reference_executions"].as_u64().unwrap_or(0), std::sync::atomic::Ordering::Relaxed);
                        continue;
                    }
                    if let Some(p) = rec.get("pools") {
                        *pools_info.lock().unwrap() = Some(p.clone());
                        continue;
                    }
                    fold(&rec, &mut agg, first_use, known, property, stopfile);
                }
                let st = child.wait();
                if !done || !st.map(|s| s.success()).unwrap_or(false) {
                    worker_failed.store(true, std::sync::atomic::Ordering::Relaxed);
                }
                total.lock().unwrap().merge(agg, 3);
            });
        }
    });
    let _ = std::fs::remove_file(&stopfile);
    let pools_file_cleanup = pools_file.clone();
    if worker_failed.load(std::sync::atomic::Ordering::Relaxed) {
        println!("harness error: a worker process did not complete");
        return 2;
    }
    let mut agg = total.into_inner().unwrap();
    if let Some((&first, _)) = agg.violations.iter().next() {
        agg.violations.retain(|k, _| *k == first);
    }
    // built-in determinism proof on a sample: one more worker process (different memo state,
    // different worker count) re-executes the first runs; fingerprints must be identical
    if agg.violations.is_empty() {
        let n = runs.min(if tier == "thorough" { 128 } else { 32 });
        let out = Command::new(&exe).args(["worker", mode, &n.to_string(), "0", "1", "/nonexistent-stopfile"]).env("VERIF_E2_POOLS", &pools_file).env("VERIF_E2_STALL_RUNS", stall_runs.min(16).to_string()).stdin(Stdio::null()).stderr(Stdio::null()).output();
        match out {
            Ok(o) => {
                let mut fps = std::collections::BTreeMap::new();
                for line in String::from_utf8_lossy(&o.stdout).lines() {
                    if let Ok(rec) = serde_json::from_str::<Value>(line) {
                        if let (Some(i), Some(f)) = (rec["idx"].as_u64(), rec["fp"].as_u64()) {
                            fps.insert(i, f);
                        }
                    }
                }
                agg.low_fps.retain(|k, _| *k < n || *k >= work::STALL_BASE);
                agg.recheck_determinism(|idx| fps.get(&idx).copied().unwrap_or(0));
            }
            Err(e) => {
                println!("harness error: determinism re-execution could not start: {e}");
                return 2;
            }
        }
    }
    agg.probes.declare(oh_verif_rt::PROBE_SITES);
    agg.probes.declare(&["executions_with_contended_first_use", "executions_with_first_use_on_2plus_threads", "probe_yields_taken", "lazy_forces", "once_calls", "tables_first_used"]);
    agg.faults.declare(&["contended_first_use", "decoder_short_read", "decoder_interrupted_read", "evaluation_unwound_and_caught", "simulated_clock_jump", "thread_stalled_at_function_entry", "thread_stalled_while_holding_a_lock"]);
    agg.probes.declare(&["function_entries_seen_in_stall_runs", "stall_runs"]);
    agg.probes.declare(&["library_read_the_clock"]);
    let wall = t0.elapsed().as_secs_f64();
    let pools_info = pools_info.into_inner().unwrap().unwrap_or(Value::Null);
    let part = json!({
        "first_use_order_signatures": first_use.lock().unwrap().len(),
        "reference_executions": ref_execs.load(std::sync::atomic::Ordering::Relaxed),
        "expression_pool": {"general": pools_info["general"], "holiday": pools_info["holiday"], "easter": pools_info["easter"]},
        "expressions_excluded_by_sequential_prescreen": pools_info["excluded"],
        "state_measure": "distinct interleaving signatures = hash of the (task, site) sequence of all scheduling points taken through the shim, mixed with the number of context switches",
        "leg": "A (shuttle, guard on)",
        "fresh_process_per_execution": true,
        "shim_level": std::fs::read_to_string(simcore::verif_root().join("sim-shuttle/gen/MODE")).map(|s| if s.trim() == "full" { "full: every std::sync / std::thread / thread_local! use in opening-hours and opening-hours-syntax is substituted by the simulator's primitives (atomics, Mutex, RwLock, Condvar, Once, OnceLock, LazyLock are scheduling points)" } else { "hooks only: the substituted tree did not compile; only LazyLock/Once at the committed #[cfg(oh_verif)] hooks are scheduling points" }.to_string()).unwrap_or_else(|_| "unknown".into()),
        "worker_processes": nw,
    });
    let rep = Report {
        property,
        tier,
        seed,
        level: "exploration",
        rule: if mode == "c18" {
            "Each run is one shuttle execution in a freshly forked process (every process-wide table starts uninitialised) of 2-4 client threads with 3-10 seeded operations each over shared, cloned and handed-off values: parse / state / next_change / interval streams / schedule_at / normalize, Country::holidays, country and zone lookup from coordinates, iterators sent through a channel. Every scheduling decision is taken by a seeded Random or PCT scheduler the harness records; probes inside the library are scheduling points at a seeded subset of sites. Oracle: the result of every operation must equal a clean single-thread evaluation (computed in two different sequential histories, each in its own fresh process, that must agree), again after all threads joined, and the data files for holidays. A run is non-trivial iff it has >= 2 context switches and (first use of some table happened on >= 2 different threads, or a first use was contended, or a probe yield / decoder fault fired); distinct = distinct event fingerprints (all results + interleaving signature + schedule) among those.".into()
        } else {
            "Each run is one shuttle execution in a freshly forked process in which 2-4 threads make the first use of the embedded holiday tables (Country::holidays for seeded, partly shared countries; PH/SH evaluations on listed dates, their neighbours and arbitrary dates), with the production decode loop reading through a fault-injecting reader (seeded short reads and Interrupted results) and a scheduling point per decoded region. Oracle: the data files parsed by the harness (independent of the library) and the sequential reference. A run is non-trivial iff it has >= 2 context switches and (first use on >= 2 threads, contended first use, or a decoder fault fired).".into()
        },
        components: json!({
            "real": ["opening-hours, opening-hours-syntax, compact-calendar (guard on: only LazyLock/Once swapped, probes and SimRead added)", "flate2/miniz_oxide inflater", "chrono, chrono-tz, tzf-rs, country-boundaries, sunrise"],
            "stub": ["every std::sync / std::thread / thread_local! use in opening-hours and opening-hours-syntax -> shuttle-backed primitives (generated source tree; see shim_level)", "client threads -> shuttle threads; hand-off channel -> shuttle::sync::mpsc", "the holiday decoder's reader is wrapped by SimRead (transparent faults only)"],
        }),
        assumptions: vec![
            "the shim's LazyLock/Once semantics match std's (initialise exactly once, block concurrent callers)".into(),
            "shuttle only interleaves at shimmed primitives, probes, spawn/join and channel operations; races inside unshimmed std primitives are the Miri leg's job".into(),
            "std::sync::Arc is not instrumented (shuttle's Arc is std's)".into(),
        ],
        extra: part,
        wall_s: wall,
        exhaustive: None,
    };
    // the evidence file is assembled by bin/merge-evidence from this part and the other leg's part
    let _ = std::fs::remove_file(&pools_file_cleanup);
    simcore::finish_as(rep, agg, &format!("{property}.shuttle.part"))
}

fn fold(rec: &Value, agg: &mut Agg, first_use: &Mutex<std::collections::BTreeSet<u64>>, known: &KnownFindings, property: &str, stopfile: &std::path::Path) {
    let idx = rec["idx"].as_u64().unwrap_or(0);
    let fp = rec["fp"].as_u64().unwrap_or(0);
    let nontrivial = rec["nontrivial"].as_bool().unwrap_or(false);
    agg.note_run(idx, fp, nontrivial);
    if (work::STALL_BASE..work::STALL_BASE + 16).contains(&idx) {
        agg.low_fps.insert(idx, fp);
    }
    agg.sim.add("scheduler_steps", rec["steps"].as_u64().unwrap_or(0));
    agg.sim.add("context_switches", rec["switches"].as_u64().unwrap_or(0));
    let st = &rec["stats"];
    if st.is_object() {
        if let Some(a) = st["probe_hits"].as_array() {
            for kv in a {
                let k = kv[0].as_str().unwrap_or("");
                if let Some(site) = oh_verif_rt::PROBE_SITES.iter().find(|s| **s == k) {
                    agg.probes.add(site, kv[1].as_u64().unwrap_or(0));
                }
            }
        }
        let g = |k: &str| st[k].as_u64().unwrap_or(0);
        agg.probes.add("probe_yields_taken", g("probe_yields"));
        agg.probes.add("lazy_forces", g("lazy_forces"));
        agg.probes.add("once_calls", g("once_calls"));
        agg.probes.add("tables_first_used", g("tables_first_used"));
        if g("contended") > 0 {
            agg.probes.hit("executions_with_contended_first_use");
        }
        if g("first_use_threads") >= 2 {
            agg.probes.hit("executions_with_first_use_on_2plus_threads");
        }
        agg.faults.add("contended_first_use", g("contended"));
        agg.faults.add("decoder_short_read", g("short_reads"));
        agg.faults.add("decoder_interrupted_read", g("eintr_reads"));
        agg.faults.add("evaluation_unwound_and_caught", rec["unwound"].as_u64().unwrap_or(0));
        agg.sim.add("decoder_read_calls", g("reads"));
        agg.faults.add("simulated_clock_jump", g("clock_jumps"));
        agg.faults.add("thread_stalled_at_function_entry", g("stalls"));
        agg.faults.add("thread_stalled_while_holding_a_lock", g("holds"));
        agg.sim.add("context_switches_spent_in_stalls", g("stall_switches"));
        agg.probes.add("function_entries_seen_in_stall_runs", g("fn_entries"));
        if idx >= work::STALL_BASE {
            agg.probes.hit("stall_runs");
        }
        agg.probes.add("library_read_the_clock", g("clock_reads"));
        agg.sim.add("scheduling_points_at_dependency_globals", g("dep_atomic_ops"));
        agg.states.insert(g("state_sig"));
        first_use.lock().unwrap().insert(g("first_use_sig"));
    }
    if let Some(s) = rec.get("sample") {
        let s = s.clone();
        agg.sample(idx, move || s, 3);
    }
    if let Some(v) = rec.get("violation") {
        let class = v["class"].as_str().unwrap_or("").to_string();
        if let Some(what) = known.matches(property, &class) {
            let e = agg.known.entry(class).or_insert((0, what.to_string()));
            e.0 += 1;
        } else {
            agg.violations.insert(idx, Violation { run: idx, class, detail: v["detail"].as_str().unwrap_or("").to_string(), scenario: v["scenario"].clone() });
            // tell the workers to stop beyond this index
            let cur = std::fs::read_to_string(stopfile).ok().and_then(|s| s.trim().parse::<u64>().ok()).unwrap_or(u64::MAX);
            if idx < cur {
                let _ = std::fs::write(stopfile, idx.to_string());
            }
        }
    }
}

fn replay(path: &str) -> i32 {
    let v = simcore::read_json(std::path::Path::new(path));
    if v["scenario"]["prescreen"] == json!(true) {
        // re-run the pre-screen: it either reports the violation again (and exits 1) or succeeds
        let _ = screen_pools_to(None);
        println!("replay of {path}: no violation (the sequential pre-screen completed)");
        return 0;
    }
    let wv = v["scenario"].get("minimised").cloned().unwrap_or_else(|| v["scenario"].clone());
    let w: Workload = match serde_json::from_value(wv) {
        Ok(w) => w,
        Err(e) => {
            eprintln!("harness error: replay file does not contain an e2 workload: {e}");
            return 2;
        }
    };
    let property = v["property"].as_str().unwrap_or("C18").to_string();
    let want = v["class"].as_str().unwrap_or("").to_string();
    let data = datafiles::DataFiles::load();
    let refs = Refs::new();
    let (fail, diverged) = match refs.ensure(&w) {
        Err(f) => (Some(f), None),
        Ok(()) => {
            let ex = execute(&w);
            (judge(&w, &ex, &refs, &data), ex.diverged)
        }
    };
    if let Some(d) = diverged {
        println!("note: the recorded schedule could not be followed exactly: {d}");
    }
    match fail {
        Some(f) => {
            println!("VIOLATION property={property} replay={path}");
            println!("  class={} detail: {}", f.class, f.detail);
            if !want.is_empty() && want != f.class {
                println!("  note: recorded class was {want}");
            }
            1
        }
        None => {
            println!("replay of {path}: no violation (recorded class: {want})");
            0
        }
    }
}
