//! Fresh-process executions. Every simulated execution (and every sequential
//! reference pass, and the pool pre-screen) runs in a forked child of a worker
//! process that itself never calls into the library: the child starts with
//! every process-wide static of the library — shimmed or not — in its initial
//! state, exactly like a freshly started process. The result comes back
//! through a pipe as JSON. The worker enforces the run timeout on the child
//! (bounded liveness) and turns an abnormal exit into a reported outcome.

use std::io::{Read, Write};
use std::os::fd::FromRawFd;
use std::time::{Duration, Instant};

use serde::de::DeserializeOwned;
use serde::Serialize;

#[derive(Debug, Clone)]
pub enum ChildErr {
    Hang,
    Crashed(String),
    Harness(String),
}

pub fn in_child<T: Serialize + DeserializeOwned>(timeout: Duration, f: impl FnOnce() -> T) -> Result<T, ChildErr> {
    let mut fds = [0i32; 2];
    if unsafe { libc::pipe(fds.as_mut_ptr()) } != 0 {
        return Err(ChildErr::Harness("pipe() failed".into()));
    }
    let pid = unsafe { libc::fork() };
    if pid < 0 {
        return Err(ChildErr::Harness("fork() failed".into()));
    }
    if pid == 0 {
        // child
        unsafe { libc::close(fds[0]) };
        let mut out = unsafe { std::fs::File::from_raw_fd(fds[1]) };
        let v = f();
        let bytes = serde_json::to_vec(&v).unwrap_or_default();
        let _ = out.write_all(&bytes);
        let _ = out.flush();
        drop(out);
        unsafe { libc::_exit(0) };
    }
    // parent
    unsafe { libc::close(fds[1]) };
    let mut inp = unsafe { std::fs::File::from_raw_fd(fds[0]) };
    let t0 = Instant::now();
    let mut buf = Vec::new();
    let mut chunk = [0u8; 65536];
    let mut eof = false;
    while !eof {
        let left = timeout.saturating_sub(t0.elapsed());
        if left.is_zero() {
            unsafe {
                libc::kill(pid, libc::SIGKILL);
                let mut st = 0;
                libc::waitpid(pid, &mut st, 0);
            }
            return Err(ChildErr::Hang);
        }
        let mut pfd = libc::pollfd { fd: fds[0], events: libc::POLLIN, revents: 0 };
        let r = unsafe { libc::poll(&mut pfd, 1, left.as_millis().min(200) as i32) };
        if r > 0 {
            match inp.read(&mut chunk) {
                Ok(0) => eof = true,
                Ok(n) => buf.extend_from_slice(&chunk[..n]),
                Err(e) if e.kind() == std::io::ErrorKind::Interrupted => {}
                Err(e) => return Err(ChildErr::Harness(format!("reading from the child: {e}"))),
            }
        }
    }
    let mut st = 0;
    unsafe { libc::waitpid(pid, &mut st, 0) };
    let exited_ok = libc::WIFEXITED(st) && libc::WEXITSTATUS(st) == 0;
    if !exited_ok {
        let why = if libc::WIFSIGNALED(st) { format!("killed by signal {}", libc::WTERMSIG(st)) } else { format!("exit status {}", libc::WEXITSTATUS(st)) };
        return Err(ChildErr::Crashed(why));
    }
    serde_json::from_slice(&buf).map_err(|e| ChildErr::Crashed(format!("child exited without a complete result ({e}; {} bytes)", buf.len())))
}
