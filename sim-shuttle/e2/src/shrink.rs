//! Minimisation of a failing workload: fewer threads, fewer operations (a
//! hand-off's two halves go together), no probes / decoder faults, re-searching
//! schedules (PCT depth 1..3, then random) for the same violation class at each
//! candidate; the schedule kept is the one with the fewest context switches found.

use crate::datafiles::DataFiles;
use crate::run::{execute, judge, Fail, Refs};
use crate::work::{Op, SchedSpec, Workload};

fn chan_of(op: &Op) -> Option<u32> {
    match op {
        Op::Send { chan, .. } | Op::Recv { chan, .. } => Some(*chan),
        _ => None,
    }
}

/// Renumber channels densely after removals and drop orphaned halves.
fn normalise(w: &mut Workload) {
    let sends: Vec<u32> = w.threads.iter().flatten().filter_map(|o| if let Op::Send { chan, .. } = o { Some(*chan) } else { None }).collect();
    let recvs: Vec<u32> = w.threads.iter().flatten().filter_map(|o| if let Op::Recv { chan, .. } = o { Some(*chan) } else { None }).collect();
    let keep: Vec<u32> = sends.iter().copied().filter(|c| recvs.contains(c)).collect();
    for t in w.threads.iter_mut() {
        t.retain(|o| chan_of(o).map_or(true, |c| keep.contains(&c)));
        for o in t.iter_mut() {
            match o {
                Op::Send { chan, .. } | Op::Recv { chan, .. } => *chan = keep.iter().position(|c| c == chan).unwrap() as u32,
                _ => {}
            }
        }
    }
}

/// Try to reproduce the same class on `cand` under a handful of schedules.
fn reproduces(cand: &Workload, class: &str, refs: &Refs, data: &DataFiles, budget: &mut u32) -> Option<(Workload, Fail)> {
    let mut specs: Vec<SchedSpec> = Vec::new();
    if let Some(_) = &cand.schedule {
        // a candidate with an explicit schedule is tried as is first
    }
    for seed in 0..4u64 {
        specs.push(SchedSpec::Pct { seed, depth: 1 });
    }
    specs.push(SchedSpec::RoundRobin);
    for seed in 0..4u64 {
        specs.push(SchedSpec::Pct { seed, depth: 2 });
        specs.push(SchedSpec::Random { seed });
    }
    for seed in 4..10u64 {
        specs.push(SchedSpec::Random { seed });
    }
    if refs.ensure(cand).is_err() {
        // sequential failures need no schedule at all
        if let Err(f) = refs.ensure(cand) {
            if f.class == class {
                let mut c = cand.clone();
                c.schedule = None;
                return Some((c, f));
            }
        }
        return None;
    }
    let mut best: Option<(Workload, Fail, usize)> = None;
    for s in specs {
        if *budget == 0 {
            break;
        }
        *budget -= 1;
        let mut c = cand.clone();
        c.schedule = None;
        c.sched = s;
        let ex = execute(&c);
        if let Some(f) = judge(&c, &ex, refs, data) {
            if f.class == class {
                let sw = ex.schedule.context_switches();
                c.schedule = Some(ex.schedule);
                if best.as_ref().map_or(true, |b| sw < b.2) {
                    best = Some((c, f, sw));
                }
                if sw <= 2 {
                    break;
                }
            }
        }
    }
    best.map(|(c, f, _)| (c, f))
}

pub fn minimise(w: &Workload, fail: &Fail, refs: &Refs, data: &DataFiles) -> (Workload, Fail) {
    let class = fail.class.clone();
    let mut best = w.clone();
    let mut best_fail = fail.clone();
    let mut budget = 400u32;

    // 0. without probes and decoder faults
    for variant in 0..3 {
        let mut c = best.clone();
        if variant == 0 {
            c.cfg.read_short_permille = 0;
            c.cfg.read_eintr_permille = 0;
        } else if variant == 2 {
            c.cfg.stall_period = 0;
            c.cfg.stall_budget = 0;
            c.cfg.hold_permille = 0;
        } else {
            c.cfg.probe_yield_permille = 0;
            c.cfg.probe_sites_enabled = 0;
        }
        if c.cfg != best.cfg {
            if let Some((c2, f)) = reproduces(&c, &class, refs, data, &mut budget) {
                best = c2;
                best_fail = f;
            }
        }
    }
    // 0b. shared values nobody uses
    let used = best.threads.iter().flatten().any(|o| matches!(o, Op::Shared { .. } | Op::SharedIter { .. }));
    if !used && !best.prebuilt.is_empty() {
        let mut c = best.clone();
        c.prebuilt.clear();
        if let Some((c2, f)) = reproduces(&c, &class, refs, data, &mut budget) {
            best = c2;
            best_fail = f;
        }
    }
    // 1. whole threads
    let mut i = 0;
    while best.threads.len() > 1 && i < best.threads.len() && budget > 0 {
        let mut c = best.clone();
        c.threads.remove(i);
        normalise(&mut c);
        if let Some((c2, f)) = reproduces(&c, &class, refs, data, &mut budget) {
            best = c2;
            best_fail = f;
        } else {
            i += 1;
        }
    }
    // 2. single operations
    let mut progress = true;
    while progress && budget > 0 {
        progress = false;
        'outer: for ti in 0..best.threads.len() {
            for oi in (0..best.threads[ti].len()).rev() {
                if budget == 0 {
                    break 'outer;
                }
                let mut c = best.clone();
                let removed = c.threads[ti].remove(oi);
                if let Some(ch) = chan_of(&removed) {
                    for t in c.threads.iter_mut() {
                        t.retain(|o| chan_of(o) != Some(ch));
                    }
                }
                normalise(&mut c);
                if c.threads.iter().all(|t| t.is_empty()) {
                    continue;
                }
                if let Some((c2, f)) = reproduces(&c, &class, refs, data, &mut budget) {
                    best = c2;
                    best_fail = f;
                    progress = true;
                    break 'outer;
                }
            }
        }
    }
    // 3. shared values nobody uses any more
    let used = best.threads.iter().flatten().any(|o| matches!(o, Op::Shared { .. } | Op::SharedIter { .. }));
    if !used && !best.prebuilt.is_empty() {
        let mut c = best.clone();
        c.prebuilt.clear();
        if let Some((c2, f)) = reproduces(&c, &class, refs, data, &mut budget) {
            best = c2;
            best_fail = f;
        }
    }
    (best, best_fail)
}
