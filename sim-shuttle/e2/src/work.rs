//! Explicit, replayable multi-thread workload and its seeded generator.

use serde::{Deserialize, Serialize};
use simcore::Rng;

use crate::pools::Pools;
use crate::sched::Recorded;

#[derive(Serialize, Deserialize, Clone, Debug, PartialEq, Eq, PartialOrd, Ord, Hash)]
pub enum Ctx {
    Default,
    Holidays(String),
    Tz(String),
    TzHolidays(String, String),
    /// `Context::from_coords`: (lat, lon) in 1e-4 degrees
    Coords(i32, i32),
    /// no location, `approx_bound_interval_size(days)`
    Bounded(u32),
    /// explicit zone plus coordinates (sun events computed for the place), no holidays, no lazy table
    TzCoords(String, i32, i32),
    /// a small caller-made public-holiday calendar (`ContextHolidays::new`), determined by the number
    Custom(u32),
    /// the calendar of `Custom(k)` plus the days of `custom_edit_dates(k)`, built from scratch by plain inserts
    /// (the reference for a calendar that was edited after it had been evaluated)
    CustomEdited(u32),
}

#[derive(Serialize, Deserialize, Clone, Debug, PartialEq, Eq, PartialOrd, Ord, Hash)]
pub enum Op {
    Parse(String),
    Render(String),
    Normalize(String),
    State { e: String, c: Ctx, t: i64 },
    NextChange { e: String, c: Ctx, t: i64 },
    StateNext { e: String, c: Ctx, t: i64 },
    /// `iter_from(t).take(n)`; the rest of the iterator is dropped mid-stream
    Iter { e: String, c: Ctx, t: i64, n: u32 },
    ScheduleAt { e: String, c: Ctx, date: (i32, u32, u32) },
    /// evaluate on a clone and on the original; both must agree
    CloneEval { e: String, c: Ctx, t: i64 },
    /// one value evaluated at t1, then at t2, then at t1 again (state carried inside a value shows as a different first answer)
    Revisit { e: String, c: Ctx, t1: i64, t2: i64 },
    /// one parsed expression (one Arc) under two contexts: evaluate under c1, under c2, under c1 again
    Recontext { e: String, c1: Ctx, c2: Ctx, t: i64 },
    /// state + next_change on the shared (Arc'd, built by the main thread) value #i
    Shared { i: u32, t: i64 },
    SharedIter { i: u32, t: i64, n: u32 },
    /// `Country::holidays()` (first use decodes both embedded tables)
    Holidays(String),
    /// is `PH` (or `SH`) open on this date with the country's calendars attached?
    HolidayOn { cc: String, date: (i32, u32, u32), school: bool },
    CountryAt(i32, i32),
    TzAt(i32, i32),
    /// the simulated clock moves forward by this many milliseconds (the thread "slept"; nothing the library
    /// returns may depend on it)
    AdvanceClock { ms: u64 },
    /// high-cardinality churn: n distinct comments / expressions / caller-made calendars in a row, half of the
    /// values kept alive, half dropped at once (reaches the eviction / sweep paths of any cache or interner)
    Churn { kind: u8, seed: u32, n: u32, t: i64 },
    /// an evaluation under a caller-written locale whose `event_time` evaluates another schedule (`inner`) on the
    /// calling thread: an evaluation entered while another one is half-way. `reentrant: false` is its reference form
    /// (the inner schedule's answers are asked before the outer evaluation starts)
    Nested { e: String, inner: String, t: i64, n: u32, reentrant: bool },
    /// two iterators alive at once on one thread, advanced in turns (n intervals each): whatever an iterator keeps
    /// outside itself (thread-local budgets, scratch state "owned" by the live iterator) is then shared by two of them
    Zip { e1: String, t1: i64, e2: String, t2: i64, n: u32 },
    /// a caller-made calendar is attached and evaluated, then a copy of it gets more days through the public
    /// `year_for_mut(..).insert(..)` and is attached to the same expression: the copy must evaluate like a calendar
    /// built from scratch with the same days, and the original like before (whatever a calendar remembers from
    /// earlier queries must not survive an edit, nor travel with `clone()`)
    EditedCalendar { e: String, k: u32, t: i64, n: u32 },
    /// create `iter_from(t)`, advance it k steps, send it to another thread
    Send { chan: u32, e: String, c: Ctx, t: i64, k: u32 },
    /// receive an iterator and take n more intervals
    Recv { chan: u32, e: String, c: Ctx, t: i64, k: u32, n: u32 },
}

#[derive(Serialize, Deserialize, Clone, Debug, Default, PartialEq, Eq)]
pub struct ExecCfg {
    pub probe_yield_permille: u32,
    pub probe_sites_enabled: u32,
    pub probe_yield_budget: u32,
    pub read_short_permille: u32,
    pub read_eintr_permille: u32,
    /// per mille probability that a probe moves the simulated clock forward (1 ms .. 25 h)
    #[serde(default)]
    pub clock_jump_permille: u32,
    /// "slow or stalled thread" fault (oh_verif_rt::ExecConfig::stall_period; 0 = off)
    #[serde(default)]
    pub stall_period: u32,
    #[serde(default)]
    pub stall_seed: u64,
    #[serde(default)]
    pub stall_budget: u32,
    /// per mille of the lock acquisitions after which the new holder is descheduled for a while
    #[serde(default)]
    pub hold_permille: u32,
    /// which simulated threads stall (bit = task id % 32)
    #[serde(default)]
    pub stall_tasks: u32,
}

#[derive(Serialize, Deserialize, Clone, Debug, PartialEq, Eq)]
pub enum SchedSpec {
    Random { seed: u64 },
    Pct { seed: u64, depth: u32 },
    RoundRobin,
}

#[derive(Serialize, Deserialize, Clone, Debug, PartialEq, Eq)]
pub struct Workload {
    pub mode: String,
    pub cfg: ExecCfg,
    pub sched: SchedSpec,
    /// values built by the main thread before the client threads start, then shared
    pub prebuilt: Vec<(String, Ctx)>,
    pub threads: Vec<Vec<Op>>,
    /// the explicit schedule (filled in for failing runs; replay uses it instead of `sched`)
    pub schedule: Option<Recorded>,
}

fn gen_ctx(rng: &mut Rng, p: &Pools, coords_ok: bool) -> Ctx {
    if rng.chance(1, 8) {
        let c = rng.pick(&p.sun_coords);
        // a small set of zones so that two contexts often differ in the coordinates only
        return Ctx::TzCoords(rng.pick(&["UTC", "Europe/Paris"]).to_string(), c.0, c.1);
    }
    if rng.chance(1, 16) {
        return Ctx::Bounded(*rng.pick(&[1, 2, 7, 30, 366]));
    }
    if rng.chance(1, 12) {
        return Ctx::Custom(rng.below(6) as u32);
    }
    match rng.below(if coords_ok { 10 } else { 8 }) {
        0 | 1 | 2 => Ctx::Default,
        3 | 4 => Ctx::Holidays(p.pick_country(rng)),
        5 | 6 => Ctx::Tz(rng.pick(&p.zones).to_string()),
        7 => Ctx::TzHolidays(rng.pick(&p.zones).to_string(), p.pick_country(rng)),
        _ => {
            let c = rng.pick(&p.sun_coords);
            Ctx::Coords(c.0, c.1)
        }
    }
}

fn gen_expr(rng: &mut Rng, p: &Pools, c: &Ctx) -> String {
    gen_expr_opt(rng, p, c, true)
}

/// `may_unwind`: false for values that are shared between threads or handed over a channel (an unwinding
/// sender would leave its receiver waiting: that is the harness's own protocol, not the library's)
fn gen_expr_opt(rng: &mut Rng, p: &Pools, c: &Ctx, may_unwind: bool) -> String {
    if !may_unwind {
        let hol = matches!(c, Ctx::Holidays(_) | Ctx::TzHolidays(..) | Ctx::Coords(..));
        return if hol && rng.chance(1, 2) { rng.pick(&p.holiday_exprs).clone() } else { rng.pick(&p.exprs).clone() };
    }
    // fault injection: one evaluation in forty is of an expression whose evaluation unwinds half-way
    // (the caller catches the panic, as an embedding application or the Python binding would)
    if !p.panicking_exprs.is_empty() && rng.chance(1, 40) {
        return rng.pick(&p.panicking_exprs).clone();
    }
    // holiday contexts get holiday expressions more often
    let hol = matches!(c, Ctx::Holidays(_) | Ctx::TzHolidays(..) | Ctx::Coords(..) | Ctx::Bounded(_) | Ctx::Custom(_));
    let sun = matches!(c, Ctx::TzCoords(..) | Ctx::Coords(..));
    if sun && rng.chance(1, 2) {
        rng.pick(&p.sun_exprs).clone()
    } else if hol && rng.chance(1, 2) {
        rng.pick(&p.holiday_exprs).clone()
    } else if rng.chance(1, 6) {
        rng.pick(&p.easter_exprs).clone()
    } else {
        rng.pick(&p.exprs).clone()
    }
}

fn gen_op(rng: &mut Rng, p: &Pools, coords_ok: bool, n_prebuilt: u32) -> Op {
    let c = gen_ctx(rng, p, coords_ok);
    let e = gen_expr(rng, p, &c);
    let t = *rng.pick(&p.instants);
    match rng.below(if coords_ok { 20 } else { 17 }) {
        0 => Op::Parse(if rng.chance(1, 5) { rng.pick(&p.invalid_exprs).clone() } else { e }),
        1 => Op::Render(e),
        2 => Op::Normalize(e),
        3 | 4 => Op::State { e, c, t },
        5 | 6 => Op::NextChange { e, c, t },
        // one stream in ten is long (hundreds of intervals: months of day-by-day loading)
        // (dense expressions only, in plain contexts: a sparse one would scan for centuries)
        7 | 8 => {
            if rng.chance(1, 10) && !p.dense_exprs.is_empty() {
                let c = if rng.chance(1, 2) { Ctx::Default } else { Ctx::Tz(rng.pick(&p.zones).to_string()) };
                Op::Iter { e: rng.pick(&p.dense_exprs).clone(), c, t, n: rng.range(150, 400) as u32 }
            } else {
                Op::Iter { e, c, t, n: rng.range(1, 12) as u32 }
            }
        }
        9 => {
            let d = chrono::DateTime::from_timestamp(t, 0).unwrap().date_naive();
            use chrono::Datelike;
            Op::ScheduleAt { e, c, date: (d.year(), d.month(), d.day()) }
        }
        10 | 11 => {
            if rng.chance(1, 4) {
                let t2 = *rng.pick(&p.instants);
                Op::Revisit { e, c, t1: t, t2 }
            } else if rng.chance(1, 3) {
                Op::CloneEval { e, c, t }
            } else {
                // one in five: a bounded evaluation without holidays (long uniform runs, the scan gives up) and the
                // same expression with a country's holidays, in either order
                if rng.chance(1, 5) {
                    let e = rng.pick(&p.holiday_exprs).clone();
                    let b = Ctx::Bounded(*rng.pick(&[1, 7, 30, 366, 366]));
                    let h = Ctx::Holidays(p.pick_country(rng));
                    let (c1, c2) = if rng.chance(2, 3) { (b, h) } else { (h, b) };
                    return Op::Recontext { e, c1, c2, t };
                }
                // the second context often differs from the first in one component only
                let c2 = match (&c, rng.below(3)) {
                    (Ctx::TzCoords(z, ..), 0 | 1) => {
                        let co = rng.pick(&p.sun_coords);
                        Ctx::TzCoords(z.clone(), co.0, co.1)
                    }
                    (Ctx::Holidays(_), 0 | 1) => Ctx::Holidays(p.pick_country(rng)),
                    (Ctx::Custom(_), _) => Ctx::Custom(rng.below(6) as u32),
                    (Ctx::Bounded(_), 0) => Ctx::Holidays(p.pick_country(rng)),
                    (Ctx::Default, 0) | (Ctx::Bounded(_), 1) => Ctx::Bounded(*rng.pick(&[1, 2, 7, 30, 366])),
                    (Ctx::Bounded(_), _) => Ctx::Default,
                    (Ctx::Tz(_), 0) => Ctx::Tz(rng.pick(&p.zones).to_string()),
                    (Ctx::TzHolidays(z, _), 0 | 1) => Ctx::TzHolidays(z.clone(), p.pick_country(rng)),
                    _ => gen_ctx(rng, p, false),
                };
                Op::Recontext { e, c1: c, c2, t }
            }
        }
        12 if n_prebuilt > 0 => Op::Shared { i: rng.below(n_prebuilt as u64) as u32, t },
        13 if n_prebuilt > 0 => Op::SharedIter { i: rng.below(n_prebuilt as u64) as u32, t, n: rng.range(1, 12) as u32 },
        12 | 13 => Op::State { e, c, t },
        14 | 15 => Op::Holidays(p.pick_country(rng)),
        16 => {
            let (cc, date, school) = p.pick_holiday_probe(rng);
            Op::HolidayOn { cc, date, school }
        }
        17 | 18 => {
            let c = rng.pick(&p.coords);
            Op::CountryAt(c.0, c.1)
        }
        _ => {
            let c = rng.pick(&p.coords);
            Op::TzAt(c.0, c.1)
        }
    }
}

/// Two lookups / evaluations for two places a few metres apart on opposite sides of a zone border.
fn gen_border_ops(rng: &mut Rng, p: &Pools) -> Option<(Op, Op)> {
    if p.border_pairs.is_empty() {
        return None;
    }
    let (a, b) = *rng.pick(&p.border_pairs);
    let (a, b) = if rng.chance(1, 2) { (a, b) } else { (b, a) };
    let t = *rng.pick(&p.instants);
    Some(match rng.below(3) {
        0 => (Op::TzAt(a.0, a.1), Op::TzAt(b.0, b.1)),
        1 => (Op::CountryAt(a.0, a.1), Op::CountryAt(b.0, b.1)),
        _ => {
            let e = rng.pick(&p.exprs).clone();
            (Op::StateNext { e: e.clone(), c: Ctx::Coords(a.0, a.1), t }, Op::StateNext { e, c: Ctx::Coords(b.0, b.1), t })
        }
    })
}

pub fn generate(rng: &mut Rng, p: &Pools, mode: &str) -> Workload {
    let c10 = mode == "c10";
    let n_threads = rng.range(2, 4) as usize;
    let coords_ok = !c10 && rng.chance(1, 5);
    let n_prebuilt = if c10 { 0 } else { rng.below(4) as u32 };
    let mut prebuilt: Vec<(String, Ctx)> = (0..n_prebuilt)
        .map(|_| {
            let c = gen_ctx(rng, p, false);
            (gen_expr_opt(rng, p, &c, false), c)
        })
        .collect();
    let mut threads: Vec<Vec<Op>> = Vec::new();
    // c10 mode: a small set of "hot" countries so that several threads race on the same first use
    let hot: Vec<String> = (0..rng.range(1, 3)).map(|_| p.pick_country(rng)).collect();
    // c10 mode, one run in eight: all 115 countries are forced, in a seeded order, split over the threads
    let sweep = c10 && rng.chance(1, 8);
    if sweep {
        let mut all = p.countries.clone();
        rng.shuffle(&mut all);
        let mut parts: Vec<Vec<Op>> = vec![Vec::new(); n_threads];
        for (i, cc) in all.into_iter().enumerate() {
            parts[i % n_threads].push(Op::Holidays(cc));
        }
        threads = parts;
    }
    for _ in 0..(if sweep { 0 } else { n_threads }) {
        let n_ops = if c10 { rng.range(2, 6) } else { rng.range(3, 10) } as usize;
        let mut ops = Vec::new();
        for _ in 0..n_ops {
            if c10 {
                // hot countries, and the first / last region of each of the two streams
                let school: Vec<&String> = p.data.school.keys().collect();
                let cc = match rng.below(9) {
                    0 | 1 | 2 => rng.pick(&hot).clone(),
                    3 => p.countries[0].clone(),
                    4 | 5 => p.countries[p.countries.len() - 1].clone(),
                    6 if !school.is_empty() => school[0].clone(),
                    7 | 8 if !school.is_empty() => school[school.len() - 1].clone(),
                    _ => p.pick_country(rng),
                };
                ops.push(match rng.below(5) {
                    0 | 1 => Op::Holidays(cc),
                    2 | 3 => {
                        let (cc2, date, school) = p.pick_holiday_probe_for(rng, &cc);
                        Op::HolidayOn { cc: cc2, date, school }
                    }
                    _ => {
                        let e = rng.pick(&p.holiday_exprs).clone();
                        Op::NextChange { e, c: Ctx::Holidays(cc), t: *rng.pick(&p.instants) }
                    }
                });
            } else {
                ops.push(gen_op(rng, p, coords_ok, n_prebuilt));
            }
        }
        threads.push(ops);
    }
    // places next to each other across a border: both lookups in the same execution, same or different threads
    if coords_ok && rng.chance(1, 2) {
        if let Some((o1, o2)) = gen_border_ops(rng, p) {
            let a = rng.usize_below(n_threads);
            let b = if rng.chance(1, 2) { a } else { rng.usize_below(n_threads) };
            let pa = rng.usize_below(threads[a].len() + 1);
            threads[a].insert(pa, o1);
            let pb = rng.usize_below(threads[b].len() + 1);
            threads[b].insert(pb, o2);
        }
    }
    // swarm, sizes: one workload in sixty has 17-24 threads with one or two cheap operations each, all on the same
    // two or three expressions (more callers at once than any small fixed pool of buffers or slots)
    if !c10 && rng.chance(1, 60) {
        let n = rng.range(17, 24) as usize;
        let es: Vec<String> = (0..rng.range(2, 3)).map(|_| rng.pick(&p.dense_exprs).clone()).collect();
        let t = *rng.pick(&p.instants);
        threads = (0..n)
            .map(|_| {
                (0..rng.range(1, 2))
                    .map(|_| {
                        let e = rng.pick(&es).clone();
                        if rng.chance(1, 2) {
                            Op::Iter { e, c: Ctx::Default, t, n: rng.range(3, 20) as u32 }
                        } else {
                            Op::ScheduleAt { e, c: Ctx::Default, date: (2024, rng.range(1, 12) as u32, rng.range(1, 28) as u32) }
                        }
                    })
                    .collect()
            })
            .collect();
    }
    // swarm, sizes: one workload in forty makes one shared value "hot": a thread walks tens of thousands of its
    // intervals (2^12 .. 2^15 computed schedules on one value and its clones) before and while the others ask it
    // the ordinary questions; the references are computed on fresh values
    if !c10 && rng.chance(1, 40) && !p.dense_exprs.is_empty() {
        // (no explicit year: such an expression stops changing after it, and the end of its last interval is
        // looked for up to year 9999)
        let open_ended = |v: &Vec<String>| -> Vec<String> { v.iter().filter(|e| !e.contains("20") && !e.contains("19")).cloned().collect() };
        let (lossy, dense) = (open_ended(&p.lossy_normal_exprs), open_ended(&p.dense_exprs));
        let e = if !lossy.is_empty() && rng.chance(1, 2) { rng.pick(&lossy).clone() } else if !dense.is_empty() { rng.pick(&dense).clone() } else { "Mo-Fr 09:00-17:00".to_string() };
        let t = p.instants[rng.usize_below(p.instants.len().min(8))];
        // one hot value in three is a sun-event expression at a place: what is then looked up thousands of times
        // through the one shared context are the events of that place, day after day
        let (e, c) = if rng.chance(1, 3) {
            let co = *rng.pick(&p.sun_coords);
            (rng.pick(&p.sun_exprs).clone(), Ctx::TzCoords(rng.pick(&p.zones).to_string(), co.0, co.1))
        } else {
            (e, Ctx::Default)
        };
        prebuilt.push((e, c));
        let i = prebuilt.len() as u32 - 1;
        threads[0].insert(0, Op::SharedIter { i, t, n: rng.range(20_000, 45_000) as u32 });
        for th in threads.iter_mut() {
            for _ in 0..rng.range(1, 3) {
                let t2 = t + rng.range(0, 400) * 86_400 + rng.range(0, 86_399);
                th.push(if rng.chance(1, 2) { Op::Shared { i, t: t2 } } else { Op::SharedIter { i, t: t2, n: rng.range(2, 12) as u32 } });
            }
        }
    }
    // skipped hours: one workload in twenty shares one zone-aware value whose bounds fall into the hour (half hour)
    // the zone skips in spring, and asks it, from different threads, about the nights of two or three different
    // years' clock changes
    if !c10 && rng.chance(1, 20) {
        // (zone, utc instants of spring-forward changes)
        let gaps: [(&str, [i64; 3]); 3] = [
            ("Europe/Paris", [1711846800, 1743296400, 1679792400]),
            ("America/New_York", [1710054000, 1741503600, 1678604400]),
            ("Australia/Lord_Howe", [1728142200, 1759591800, 1696087800]),
        ];
        let (zone, at) = *rng.pick(&gaps);
        let e = rng.pick(&["02:15-02:45", "00:00-02:30", "Sa 22:00-26:10, Su 02:50-06:00", "02:00-03:00 off; 00:00-24:00", "01:00-02:20,02:40-05:00"]).to_string();
        prebuilt.push((e, Ctx::Tz(zone.to_string())));
        let i = prebuilt.len() as u32 - 1;
        for (k, th) in threads.iter_mut().enumerate() {
            for _ in 0..rng.range(1, 3) {
                let t = at[(k + rng.below(2) as usize) % 3] - rng.range(60, 3 * 3600);
                let pos = rng.usize_below(th.len().min(2) + 1);
                th.insert(pos, if rng.chance(2, 3) { Op::Shared { i, t } } else { Op::SharedIter { i, t, n: rng.range(2, 6) as u32 } });
            }
        }
    }
    // the same request from every thread at once, each followed at once by a different cheap one (request
    // coalescing, single-flight caches: the waiter must get the answer to its own question): one workload in twenty
    if !c10 && rng.chance(1, 20) {
        let e = rng.pick(&p.exprs).clone();
        let k = rng.below(3);
        let t = *rng.pick(&p.instants);
        let cheap = ["24/7", "Mo-Fr 09:00-17:00", "off", "Sa,Su 10:00-12:00", "Mo 10:00-12:00; Tu off", "sunrise-sunset"];
        let mk = |e: String| match k {
            0 => Op::Normalize(e),
            1 => Op::Parse(e),
            _ => Op::StateNext { e, c: Ctx::Default, t },
        };
        for (i, th) in threads.iter_mut().enumerate() {
            let pos = rng.usize_below(th.len().min(1) + 1);
            for r in 0..rng.range(1, 3) as usize {
                th.insert(pos + 2 * r, mk(e.clone()));
                th.insert(pos + 2 * r + 1, mk(cheap[(i + r) % cheap.len()].to_string()));
            }
        }
    }
    // parse storms: one workload in twenty-five has every thread parse (and ask one question of) expressions of
    // very different lengths, the shortest next to the longest: whatever the parser keeps between or across calls --
    // in the library or in the parser generator's own process-wide settings -- is then shared by unequal callers
    if !c10 && rng.chance(1, 25) && !p.long_exprs.is_empty() {
        let t = *rng.pick(&p.instants);
        let shorts = ["24/7", "Mo", "off", "PH off", "Mo-Fr 09:00-17:00", "sunrise-sunset"];
        for (i, th) in threads.iter_mut().enumerate() {
            for _ in 0..rng.range(2, 5) {
                let long = (i % 2 == 0) == rng.chance(3, 4);
                let e = if long { rng.pick(&p.long_exprs).clone() } else { rng.pick(&shorts).to_string() };
                let pos = rng.usize_below(th.len() + 1);
                th.insert(pos, match rng.below(3) {
                    0 => Op::Parse(e),
                    1 => Op::Normalize(e),
                    _ => Op::StateNext { e, c: Ctx::Default, t },
                });
            }
        }
    }
    let n_threads = threads.len();
    // swarm, sizes: one workload in three hundred makes tens of thousands of distinct comments / expressions
    if !c10 && rng.chance(1, 300) {
        let kind = *rng.pick(&[0u8, 0, 1]);
        let t = *rng.pick(&p.instants);
        for th in 0..n_threads.min(2) {
            threads[th].insert(0, Op::Churn { kind, seed: 10 + th as u32, n: rng.range(30_000, 45_000) as u32, t });
        }
    }
    // the simulated clock: one workload in five has threads that "sleep" between their operations
    if !c10 && rng.chance(1, 5) {
        for th in threads.iter_mut() {
            for _ in 0..rng.range(1, 3) {
                let pos = rng.usize_below(th.len() + 1);
                th.insert(pos, Op::AdvanceClock { ms: *rng.pick(&[1, 49, 51, 999, 1_001, 59_000, 61_000, 3_599_000, 3_601_000, 86_401_000]) });
            }
        }
    }
    // churn: one workload in four gets churn operations of one kind
    if !c10 && rng.chance(1, 4) {
        let kind = *rng.pick(&[0u8, 0, 3, 3, 1, 2]);
        let t = *rng.pick(&p.instants);
        // usually on every thread at once (the sweep / eviction of one thread then meets the drops of the others)
        // ... half of the time all with the same seed: the threads then make the same values, one after the other
        let common = if rng.chance(1, 2) { Some(rng.below(4) as u32) } else { None };
        for th in 0..n_threads {
            if th == 0 || rng.chance(2, 3) {
                let pos = rng.usize_below(threads[th].len().min(2) + 1);
                threads[th].insert(pos, Op::Churn { kind, seed: common.unwrap_or(rng.below(4) as u32), n: rng.range(280, 600) as u32, t });
            }
        }
    }
    // bursts on colliding keys: every thread evaluates the same sun-event expression at the same instant for a
    // different place, or the same Easter expression in years that are 16 / 32 / 64 apart (small direct-mapped
    // tables collide on exactly such keys)
    if !c10 && rng.chance(1, 5) {
        let sun = rng.chance(1, 2);
        // (Easter expressions without an explicit year: the others never change again after it and would be
        // scanned to year 9999 from a later instant)
        let open_ended: Vec<&String> = p.easter_exprs.iter().filter(|e| !e.contains("20")).collect();
        let e = if sun || open_ended.is_empty() { rng.pick(&p.sun_exprs).clone() } else { (*rng.pick(&open_ended)).clone() };
        let sun = sun || open_ended.is_empty();
        let t0 = *rng.pick(&p.instants);
        let first = rng.usize_below(p.sun_coords.len());
        let step = *rng.pick(&[16i64, 32, 32, 64, 1, 4, 8]);
        // (either direction: the first thread may well be the one in the latest year)
        let backwards = rng.chance(1, 2);
        let n_th = threads.len();
        for (i, th) in threads.iter_mut().enumerate() {
            let i = if backwards && !sun { n_th - 1 - i } else { i };
            let (c, t) = if sun {
                let co = p.sun_coords[(first + i) % p.sun_coords.len()];
                (Ctx::TzCoords("UTC".into(), co.0, co.1), t0)
            } else {
                // the same calendar day, `step * i` years later (365.2425 days per year is close enough: the
                // evaluation only has to land in that year)
                (Ctx::Default, t0 + (step * i as i64) * 31_556_952)
            };
            let pos = rng.usize_below(th.len().min(2) + 1);
            let n = rng.range(2, 6) as u32;
            th.insert(pos, if rng.chance(1, 2) { Op::Iter { e: e.clone(), c, t, n } } else { Op::StateNext { e: e.clone(), c, t } });
        }
    }
    // two expressions that differ in spacing only, evaluated in the same execution (same kind of operation)
    if !c10 && rng.chance(1, 3) && !p.spacing_variants.is_empty() {
        let (a, b) = rng.pick(&p.spacing_variants).clone();
        let (a, b) = if rng.chance(1, 2) { (a, b) } else { (b, a) };
        let t = *rng.pick(&p.instants);
        let c = gen_ctx(rng, p, false);
        let mk = |e: String, k: u64, c: &Ctx| match k {
            0 => Op::Parse(e),
            1 => Op::Iter { e, c: c.clone(), t, n: 12 },
            2 => Op::Normalize(e),
            _ => Op::StateNext { e, c: c.clone(), t },
        };
        let k = rng.below(4);
        let ta = rng.usize_below(n_threads);
        let tb = if rng.chance(1, 2) { ta } else { rng.usize_below(n_threads) };
        let pa = rng.usize_below(threads[ta].len() + 1);
        threads[ta].insert(pa, mk(a, k, &c));
        let pb = rng.usize_below(threads[tb].len() + 1);
        threads[tb].insert(pb, mk(b, if rng.chance(2, 3) { k } else { rng.below(4) }, &c));
    }
    // iterator hand-offs between threads (always from a lower to a higher thread index: no wait cycles)
    if !c10 {
        let n_hand = rng.below(3) as u32;
        for chan in 0..n_hand {
            let a = rng.usize_below(n_threads - 1);
            let b = a + 1 + rng.usize_below(n_threads - 1 - a);
            let c = gen_ctx(rng, p, false);
            let e = gen_expr_opt(rng, p, &c, false);
            let t = *rng.pick(&p.instants);
            let k = rng.below(5) as u32;
            let n = rng.range(1, 8) as u32;
            let pa = rng.usize_below(threads[a].len() + 1);
            threads[a].insert(pa, Op::Send { chan, e: e.clone(), c: c.clone(), t, k });
            let pb = rng.usize_below(threads[b].len() + 1);
            threads[b].insert(pb, Op::Recv { chan, e, c, t, k, n });
        }
    }
    let cfg = ExecCfg {
        probe_yield_permille: *rng.pick(&[0, 10, 100, 500]),
        probe_sites_enabled: rng.below(64) as u32 | if c10 { 0b100 } else { 0 },
        probe_yield_budget: 3000,
        read_short_permille: *rng.pick(&[0, 0, 50, 300, 900]),
        read_eintr_permille: *rng.pick(&[0, 0, 20, 200]),
        clock_jump_permille: *rng.pick(&[0, 0, 0, 5, 50]),
        stall_period: 0,
        stall_seed: 0,
        stall_budget: 0,
        hold_permille: 0,
        stall_tasks: 0,
    };
    let sched = if rng.chance(7, 10) { SchedSpec::Random { seed: rng.u64() } } else { SchedSpec::Pct { seed: rng.u64(), depth: rng.range(1, 3) as u32 } };
    Workload { mode: mode.to_string(), cfg, sched, prebuilt, threads, schedule: None }
}

/// text the parser refuses on the pinned tree (constants: nothing here is computed with the library under test)
pub const REJECTED: &[&str] = &[
    "Su 10:00-12:00 \"café\"; Mo-",
    "Mo-Fr 08:00–",
    "\"unterminated café",
    "Mo 10:00-12:00 ；",
    "24/7 é",
    "Mo-",
    "10:00-",
    "Jan 32",
    "Mo-Fr 08:00-12:00,,",
    "Mo−Fr 09:00−17:00 || ",
    "ｗeek 99",
];
/// valid expressions whose comments are not ASCII
pub const NON_ASCII_VALID: &[&str] = &[
    "Sa 10:00-12:00 \"café\"",
    "Mo-Fr 09:00-17:00 \"Mittagspause möglich\"",
    "Su 10:00-12:00 \"日曜日\"",
    "Tu 10:00-12:00 \"naïve – dash\"; We off \"fermé\"",
    "Mo-Su 08:00-20:00 \"ｆｕｌｌ　ｗｉｄｔｈ\"",
];

/// Run indices from here on are "stall runs": the same generator, plus the slow-or-stalled-thread fault
/// (threads descheduled at seeded function entries of the library, for 1-64 context switches). They are extra
/// runs appended to every tier, so that the runs 0..n of a tier are exactly what they were without the fault kind.
pub const STALL_BASE: u64 = 10_000_000;

pub fn generate_for(rng: &mut Rng, p: &Pools, mode: &str, idx: u64) -> Workload {
    let mut w = generate(rng, p, mode);
    if idx >= STALL_BASE {
        w.cfg.stall_period = *rng.pick(&[0, 40, 200, 1_000, 5_000, 25_000]);
        w.cfg.stall_seed = rng.u64();
        w.cfg.stall_budget = 400;
        w.cfg.hold_permille = *rng.pick(&[0, 50, 300, 800, 1000]);
        // every thread may stall, or one slow thread among fast ones (task 0 is the execution's main thread)
        if mode != "c10" {
            // rejected input as a fault: a thread is handed text the parser refuses (truncated, or with characters
            // outside ASCII in the wrong place), and the very next thing it parses or evaluates is a valid expression
            // with non-ASCII text of its own -- an error path must leave nothing behind
            if rng.chance(1, 3) {
                for _ in 0..rng.range(1, 3) {
                    let th = rng.usize_below(w.threads.len());
                    let pos = rng.usize_below(w.threads[th].len() + 1);
                    let bad = rng.pick(REJECTED).to_string();
                    let good = rng.pick(NON_ASCII_VALID).to_string();
                    let t = *rng.pick(&p.instants);
                    w.threads[th].insert(pos, Op::Parse(bad));
                    w.threads[th].insert(pos + 1, if rng.chance(1, 2) { Op::Parse(good) } else { Op::Iter { e: good, c: Ctx::Default, t, n: 6 } });
                }
            }
            if rng.chance(1, 4) {
                let th = rng.usize_below(w.threads.len());
                let pos = rng.usize_below(w.threads[th].len() + 1);
                let e = rng.pick(&["PH", "PH off; Mo-Su 10:00-12:00", "Mo-Fr 09:00-17:00; PH off", "PH,Su 10:00-14:00"]).to_string();
                w.threads[th].insert(pos, Op::EditedCalendar { e, k: rng.below(6) as u32, t: *rng.pick(&p.instants), n: rng.range(8, 60) as u32 });
            }
            // re-entrant evaluation through the Localize seam
            if rng.chance(1, 4) {
                let e = rng.pick(&["10:00-12:00,sunset-22:00", "sunrise-sunset", "(sunrise+01:00)-(sunset-01:00); Mo off", "10:00-12:00,sunset-22:00; Su dawn-dusk", "Mo-Fr 08:00-12:00,14:00-sunset \"see notice\"; Sa sunrise-12:00", "dawn-10:00,12:00-14:00,16:00-dusk"]).to_string();
                let inner = rng.pick(&["Mo-Fr 09:00-17:00", "10:00-12:00,14:00-16:00", "Mo,We,Fr 10:30-11:30; Su 08:00-20:00", "sunrise-sunset; Tu off", "Jan-Jun Mo-Sa 08:00-12:00; Jul-Dec 14:00-18:00"]).to_string();
                for _ in 0..rng.range(1, 3) {
                    let th = rng.usize_below(w.threads.len());
                    let pos = rng.usize_below(w.threads[th].len() + 1);
                    w.threads[th].insert(pos, Op::Nested { e: e.clone(), inner: inner.clone(), t: *rng.pick(&p.instants), n: rng.range(2, 14) as u32, reentrant: true });
                }
            }
            // year aliases at the edges of the supported range: the same year-keyed expression in year y and in
            // y +- 2^k, y the first or the last supported year or an ordinary one (tables indexed by a year modulo
            // their size, inclusive-for-exclusive bounds at either end)
            if rng.chance(1, 4) {
                let e = rng.pick(&["easter 10:00-18:00", "easter -2 days-easter +1 day 08:00-20:00", "Mo-Sa 09:00-18:00; easter off", "Feb 29 10:00-12:00", "week 53 Mo-Su 10:00-12:00", "Dec 31-Jan 01 00:00-24:00", "Jan 01,easter +1 day off; Mo-Su 08:00-20:00"]).to_string();
                let (y0, sign) = match rng.below(4) {
                    0 => (1900, 1),
                    1 => (9999, -1),
                    2 => (1900 + rng.below(8) as i32, 1),
                    _ => (2024, 1),
                };
                let at = |y: i32, m: u32, d: u32| chrono::NaiveDate::from_ymd_opt(y, m, d).unwrap().and_hms_opt(9, 30, 0).unwrap().and_utc().timestamp();
                let (m, d) = *rng.pick(&[(3u32, 20u32), (4, 1), (2, 27), (12, 30), (1, 1)]);
                // y0, every y0 +- 2^k (k = 4..12), y0 again
                let mut years = vec![y0];
                years.extend((4..=12).map(|k| y0 + sign * (1 << k)));
                years.push(y0);
                for y in years {
                    let th = rng.usize_below(w.threads.len());
                    let pos = rng.usize_below(w.threads[th].len() + 1);
                    let t = at(y, m, d);
                    w.threads[th].insert(pos, if rng.chance(1, 2) { Op::StateNext { e: e.clone(), c: Ctx::Default, t } } else { Op::Iter { e: e.clone(), c: Ctx::Default, t, n: 4 } });
                }
            }
            // two live iterators advanced in turns on one thread; one in ten of these walks for more than a century
            if rng.chance(1, 3) && !p.dense_exprs.is_empty() {
                let th = rng.usize_below(w.threads.len());
                let pos = rng.usize_below(w.threads[th].len() + 1);
                let long = rng.chance(1, 10);
                let pick = |rng: &mut Rng| if long || rng.chance(1, 2) { rng.pick(&p.dense_exprs).clone() } else { rng.pick(&p.exprs).clone() };
                let (e1, e2) = (pick(rng), pick(rng));
                let (t1, t2) = (*rng.pick(&p.instants), *rng.pick(&p.instants));
                let n = if long { rng.range(60_000, 90_000) as u32 } else { rng.range(3, 40) as u32 };
                w.threads[th].insert(pos, Op::Zip { e1, t1, e2, t2, n });
            }
        }
        w.cfg.stall_tasks = if rng.chance(1, 2) { u32::MAX } else { 1 << (1 + rng.usize_below(w.threads.len().max(1)) % 31) };
    }
    w
}
