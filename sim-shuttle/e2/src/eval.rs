//! Evaluation of one operation against the real library; every result is
//! rendered canonically as a string so that results can be compared across
//! threads, schedules and executions.

use std::sync::Arc;

use chrono::{DateTime, NaiveDate, NaiveDateTime, TimeZone, Utc};
#[allow(unused_imports)]
use chrono::Offset;
use chrono_tz::Tz;
use opening_hours::localization::{Coordinates, Country, TzLocation};
use opening_hours::{Context, DateTimeRange, OpeningHours};

use crate::datafiles::digest;
use crate::work::{Ctx, Op};

pub enum AnyOh {
    N(OpeningHours),
    Z(OpeningHours<TzLocation<Tz>>, Tz),
}

/// A caller-written locale (the public `Localize` trait is the seam) whose sun events depend on *another* schedule:
/// `event_time` evaluates `inner` on the calling thread, i.e. an evaluation is entered while another one is half-way
/// (the venue's "sunset" is half an hour later on days its own published hours say it is open at 11:00).
#[derive(Clone)]
pub struct NestedLocale {
    inner: Arc<OpeningHours>,
    /// Some: the answers of `inner` were asked before the outer evaluation started (no re-entrancy: the reference)
    known: Option<Arc<std::collections::BTreeMap<NaiveDate, bool>>>,
}

fn inner_open(inner: &OpeningHours, date: NaiveDate) -> bool {
    inner.state(date.and_hms_opt(11, 0, 0).unwrap()) == opening_hours::RuleKind::Open
}

impl opening_hours::localization::Localize for NestedLocale {
    type DateTime = NaiveDateTime;
    fn naive(&self, dt: NaiveDateTime) -> NaiveDateTime {
        dt
    }
    fn datetime(&self, naive: NaiveDateTime) -> NaiveDateTime {
        naive
    }
    fn event_time(&self, date: NaiveDate, event: opening_hours_syntax::rules::time::TimeEvent) -> chrono::NaiveTime {
        use opening_hours_syntax::rules::time::TimeEvent;
        let open = match self.known.as_ref().and_then(|k| k.get(&date)) {
            Some(o) => *o,
            None => inner_open(&self.inner, date),
        };
        let (h, m) = match event {
            TimeEvent::Dawn => (6, 0),
            TimeEvent::Sunrise => (7, 0),
            TimeEvent::Sunset => (19, 0),
            TimeEvent::Dusk => (20, 0),
        };
        chrono::NaiveTime::from_hms_opt(h, if open { m + 30 } else { m }, 0).unwrap()
    }
}

fn nested_eval(e: &str, inner: &str, t: i64, n: u32, reentrant: bool) -> String {
    let (outer, inner) = match (OpeningHours::parse(e), OpeningHours::parse(inner)) {
        (Ok(a), Ok(b)) => (a, Arc::new(b)),
        (Err(m), _) | (_, Err(m)) => return format!("parse error: {m}"),
    };
    let known = if reentrant {
        None
    } else {
        let d0 = ndt(t).date();
        Some(Arc::new((-3..400i64).map(|k| d0 + chrono::TimeDelta::days(k)).map(|d| (d, inner_open(&inner, d))).collect()))
    };
    let oh = outer.with_context(Context::default().with_locale(NestedLocale { inner, known }));
    let from = ndt(t);
    let items: Vec<String> = oh.iter_from(from).take(n as usize).map(|r| render_n(&r)).collect();
    format!("{:?} {:?} {}", oh.state(from), oh.next_change(from), items.join(""))
}

fn ndt(t: i64) -> NaiveDateTime {
    DateTime::<Utc>::from_timestamp(t, 0).expect("instant").naive_utc()
}

fn coords(lat: i32, lon: i32) -> Option<Coordinates> {
    Coordinates::new(lat as f64 / 1e4, lon as f64 / 1e4)
}

fn render_n(r: &DateTimeRange<NaiveDateTime>) -> String {
    format!("[{} .. {} {:?} {:?}]", r.range.start, r.range.end, r.kind, r.comments)
}

fn render_z(r: &DateTimeRange<DateTime<Tz>>) -> String {
    format!("[{} .. {} {:?} {:?}]", r.range.start.to_rfc3339(), r.range.end.to_rfc3339(), r.kind, r.comments)
}

pub fn build(e: &str, c: &Ctx) -> Result<AnyOh, String> {
    let base = OpeningHours::parse(e).map_err(|err| format!("parse error: {err}"))?;
    build_from(base, c)
}

/// attach a context to an already parsed expression (the expression Arc is shared)
pub fn build_from(base: OpeningHours, c: &Ctx) -> Result<AnyOh, String> {
    Ok(match c {
        Ctx::Default => AnyOh::N(base),
        Ctx::Bounded(days) => AnyOh::N(base.with_context(Context::default().approx_bound_interval_size(chrono::TimeDelta::days(*days as i64)))),
        Ctx::Holidays(cc) => {
            let country: Country = cc.parse().map_err(|_| format!("unknown country {cc}"))?;
            AnyOh::N(base.with_context(Context::default().with_holidays(country.holidays())))
        }
        Ctx::Tz(z) => {
            let tz: Tz = z.parse().map_err(|_| format!("unknown zone {z}"))?;
            AnyOh::Z(base.with_context(Context::default().with_locale(TzLocation::new(tz))), tz)
        }
        Ctx::TzHolidays(z, cc) => {
            let tz: Tz = z.parse().map_err(|_| format!("unknown zone {z}"))?;
            let country: Country = cc.parse().map_err(|_| format!("unknown country {cc}"))?;
            AnyOh::Z(base.with_context(Context::default().with_holidays(country.holidays()).with_locale(TzLocation::new(tz))), tz)
        }
        Ctx::Custom(k) => AnyOh::N(base.with_context(Context::default().with_holidays(custom_holidays(*k)))),
        Ctx::CustomEdited(k) => {
            let mut cal = (*custom_holidays(*k).get_public()).clone();
            for d in custom_edit_dates(*k) {
                cal.insert(d);
            }
            AnyOh::N(base.with_context(Context::default().with_holidays(opening_hours::ContextHolidays::new(Arc::new(cal), Arc::default()))))
        }
        Ctx::TzCoords(z, lat, lon) => {
            let tz: Tz = z.parse().map_err(|_| format!("unknown zone {z}"))?;
            let co = coords(*lat, *lon).ok_or_else(|| "invalid coordinates".to_string())?;
            AnyOh::Z(base.with_context(Context::default().with_locale(TzLocation::new(tz).with_coords(co))), tz)
        }
        Ctx::Coords(lat, lon) => {
            let co = coords(*lat, *lon).ok_or_else(|| "invalid coordinates".to_string())?;
            let ctx = Context::from_coords(co);
            let tz = *ctx.locale.get_timezone();
            AnyOh::Z(base.with_context(ctx), tz)
        }
    })
}

/// caller-made holiday calendars: calendar k holds a handful of days around the instants the pools use
pub fn custom_holidays(k: u32) -> opening_hours::ContextHolidays {
    let mut cal = compact_calendar::CompactCalendar::default();
    for (i, (y, m, d)) in [(2024, 1, 1), (2024, 3, 29), (2024, 3, 31), (2024, 6, 15), (2024, 6, 16), (2024, 10, 27), (2024, 12, 24), (2025, 2, 28), (2030, 7, 4), (2021, 4, 10)].iter().enumerate() {
        if (k as usize + i) % 3 != 0 {
            cal.insert(NaiveDate::from_ymd_opt(*y, *m, *d).unwrap());
        }
    }
    // a few days that depend on k only, so that no two calendars are equal
    cal.insert(NaiveDate::from_ymd_opt(2024, 7, 1).unwrap() + chrono::TimeDelta::days((k % 20_000) as i64));
    opening_hours::ContextHolidays::new(Arc::new(cal), Arc::default())
}

/// days added later to calendar k, all in years of its window that hold no day yet (2022, 2023, 2026-2029) or few
pub fn custom_edit_dates(k: u32) -> Vec<NaiveDate> {
    let k = k as i64;
    vec![
        NaiveDate::from_ymd_opt(2027, 5, 17).unwrap() + chrono::TimeDelta::days(k % 7),
        NaiveDate::from_ymd_opt(2022, 11, 1).unwrap() + chrono::TimeDelta::days(k % 5),
        NaiveDate::from_ymd_opt(2026, 1, 31).unwrap(),
        NaiveDate::from_ymd_opt(2029, 12, 31).unwrap(),
        NaiveDate::from_ymd_opt(2024, 12, 25).unwrap(),
    ]
}

impl AnyOh {
    pub fn state(&self, t: i64) -> String {
        match self {
            AnyOh::N(oh) => format!("{:?}", oh.state(ndt(t))),
            AnyOh::Z(oh, tz) => format!("{:?}", oh.state(tz.from_utc_datetime(&ndt(t)))),
        }
    }
    pub fn next_change(&self, t: i64) -> String {
        match self {
            AnyOh::N(oh) => format!("{:?}", oh.next_change(ndt(t))),
            AnyOh::Z(oh, tz) => format!("{:?}", oh.next_change(tz.from_utc_datetime(&ndt(t))).map(|d| d.to_rfc3339())),
        }
    }
    /// the interval stream from t, rendered lazily
    pub fn iter(&self, t: i64) -> Box<dyn Iterator<Item = String> + Send> {
        match self {
            AnyOh::N(oh) => Box::new(oh.iter_from(ndt(t)).map(|r| render_n(&r))),
            AnyOh::Z(oh, tz) => Box::new(oh.iter_from(tz.from_utc_datetime(&ndt(t))).map(|r| render_z(&r))),
        }
    }
    pub fn schedule_at(&self, d: NaiveDate) -> String {
        let s = match self {
            AnyOh::N(oh) => oh.schedule_at(d),
            AnyOh::Z(oh, _) => oh.schedule_at(d),
        };
        s.into_iter().map(|r| format!("[{}-{} {:?} {:?}]", r.range.start, r.range.end, r.kind, r.comments)).collect::<Vec<_>>().join("")
    }
    pub fn cloned(&self) -> AnyOh {
        match self {
            AnyOh::N(oh) => AnyOh::N(oh.clone()),
            AnyOh::Z(oh, tz) => AnyOh::Z(oh.clone(), *tz),
        }
    }
    pub fn tz_name(&self) -> String {
        match self {
            AnyOh::N(_) => "-".into(),
            AnyOh::Z(_, tz) => tz.name().to_string(),
        }
    }
}

pub type Shared = Arc<Vec<Result<AnyOh, String>>>;
pub type Msg = (Vec<String>, Box<dyn Iterator<Item = String> + Send>);

pub struct Chans {
    pub tx: Vec<std::sync::Mutex<Option<shuttle::sync::mpsc::Sender<Msg>>>>,
    pub rx: Vec<std::sync::Mutex<Option<shuttle::sync::mpsc::Receiver<Msg>>>>,
}

fn take_n(mut it: Box<dyn Iterator<Item = String> + Send>, n: u32) -> Vec<String> {
    let mut v = Vec::new();
    // long streams are rendered as their first 16 intervals, a digest of everything and the last 4
    let mut digest = simcore::Fp::default();
    let mut tail: std::collections::VecDeque<String> = std::collections::VecDeque::new();
    let mut count = 0u32;
    for _ in 0..n {
        match it.next() {
            Some(s) => {
                count += 1;
                if n > 2000 {
                    digest.str(&s);
                    if v.len() < 16 {
                        v.push(s);
                    } else {
                        tail.push_back(s);
                        if tail.len() > 4 {
                            tail.pop_front();
                        }
                    }
                } else {
                    v.push(s);
                }
            }
            None => break,
        }
    }
    if n > 2000 {
        v.push(format!("...[{count} intervals, digest {:016x}]...", digest.0));
        v.extend(tail);
    }
    v
}

/// Evaluate one operation. `shared` / `chans` are None in the sequential
/// reference execution, where Shared*/Send/Recv are evaluated by their
/// sequential equivalents.
pub fn eval(op: &Op, pre: Option<(&Shared, &[(String, Ctx)])>, chans: Option<&Chans>) -> String {
    let r = simcore::catch(|| eval_inner(op, pre, chans));
    match r {
        Ok(s) => s,
        Err(msg) => format!("PANIC: {msg}"),
    }
}

fn eval_inner(op: &Op, pre: Option<(&Shared, &[(String, Ctx)])>, chans: Option<&Chans>) -> String {
    match op {
        Op::Parse(e) => match opening_hours_syntax::parse(e) {
            Ok(x) => format!("Ok({x})"),
            Err(_) => "Err".to_string(),
        },
        Op::Render(e) => match OpeningHours::parse(e) {
            Ok(oh) => oh.to_string(),
            Err(_) => "Err".into(),
        },
        Op::Normalize(e) => match OpeningHours::parse(e) {
            Ok(oh) => oh.normalize().to_string(),
            Err(_) => "Err".into(),
        },
        Op::State { e, c, t } => match build(e, c) {
            Ok(oh) => oh.state(*t),
            Err(m) => m,
        },
        Op::NextChange { e, c, t } => match build(e, c) {
            Ok(oh) => oh.next_change(*t),
            Err(m) => m,
        },
        Op::StateNext { e, c, t } => match build(e, c) {
            Ok(oh) => format!("{} {}", oh.state(*t), oh.next_change(*t)),
            Err(m) => m,
        },
        Op::Iter { e, c, t, n } => match build(e, c) {
            Ok(oh) => take_n(oh.iter(*t), *n).join(""),
            Err(m) => m,
        },
        Op::ScheduleAt { e, c, date } => match (build(e, c), NaiveDate::from_ymd_opt(date.0, date.1, date.2)) {
            (Ok(oh), Some(d)) => oh.schedule_at(d),
            (Err(m), _) => m,
            _ => "invalid date".into(),
        },
        Op::CloneEval { e, c, t } => match build(e, c) {
            Ok(oh) => {
                let cl = oh.cloned();
                let a = format!("{} {} {}", oh.state(*t), oh.next_change(*t), take_n(oh.iter(*t), 3).join(""));
                drop(oh);
                let b = format!("{} {} {}", cl.state(*t), cl.next_change(*t), take_n(cl.iter(*t), 3).join(""));
                if a == b {
                    a
                } else {
                    format!("CLONE-DIFFERS original={a} clone={b}")
                }
            }
            Err(m) => m,
        },
        Op::AdvanceClock { ms } => {
            oh_verif_rt::time::advance(std::time::Duration::from_millis(*ms));
            "ok".into()
        }
        // kind 3: distinct comments with a steady trickle of releases -- a sliding window of live values, the oldest
        // released as each new one is made (values go out of scope all the time, not only in bursts)
        Op::Churn { kind: 3, seed, n, t } => {
            let mut live: std::collections::VecDeque<(String, AnyOh)> = std::collections::VecDeque::new();
            let mut f = simcore::Fp::default();
            let shown_of = |oh: &AnyOh| match oh {
                AnyOh::N(x) => x.to_string(),
                AnyOh::Z(x, _) => x.to_string(),
            };
            for i in 0..*n {
                let e = format!("Mo-Su 10:00-{}:00 \"w{}-{}\"", 11 + i % 8, seed, i);
                match build(&e, &Ctx::Default) {
                    Ok(oh) => {
                        f.str(&oh.state(*t));
                        live.push_back((e, oh));
                    }
                    Err(m) => f.str(&m),
                }
                if live.len() > 48 {
                    live.pop_front();
                }
                if i % 24 == 23 || i + 1 == *n {
                    for (e, oh) in &live {
                        let shown = shown_of(oh);
                        if !shown.contains(e.split('"').nth(1).unwrap_or("")) {
                            return format!("CHURN-MIXUP {e:?} prints as {shown:?}");
                        }
                    }
                }
            }
            // made again from the same strings, they print the same
            let expect: Vec<(String, String)> = live.iter().map(|(e, oh)| (e.clone(), shown_of(oh))).collect();
            drop(live);
            for (e, shown) in &expect {
                if let Ok(again) = build(e, &Ctx::Default) {
                    let shown2 = shown_of(&again);
                    if shown2 != *shown {
                        return format!("CHURN-MIXUP {e:?} printed as {shown:?}, made again it prints as {shown2:?}");
                    }
                    f.str(&shown2);
                }
            }
            format!("churn {:016x}", f.0)
        }
        Op::Churn { kind, seed, n, t } => {
            let mut kept: Vec<(String, AnyOh)> = Vec::new();
            let mut f = simcore::Fp::default();
            for i in 0..*n {
                let (e, c) = match kind {
                    // distinct comments
                    0 => (format!("Mo-Su 10:00-{}:00 \"c{}-{}\"", 11 + i % 8, seed, i), Ctx::Default),
                    // distinct expressions
                    1 => (format!("Mo-Su {:02}:{:02}-{:02}:{:02}; Su[{}] off", (i / 60) % 12, i % 60, 12 + (i / 60) % 11, (i * 7) % 60, 1 + (seed + i) % 4), Ctx::Default),
                    // distinct caller-made calendars (most of them dropped at once)
                    _ => ("Mo-Su 09:00-18:00; PH off".to_string(), Ctx::Custom(1000 + seed * 1000 + i)),
                };
                // (tens of thousands of values: only made, one in sixteen kept; otherwise evaluated, one in two kept)
                let mega = *n > 5_000;
                match build(&e, &c) {
                    Ok(oh) => {
                        if !mega {
                            f.str(&oh.state(*t));
                        }
                        if i % if mega { 16 } else { 2 } == 0 {
                            kept.push((e, oh));
                        }
                    }
                    Err(m) => f.str(&m),
                }
            }
            // everything kept alive must still print and evaluate as what it was made from
            let mut expect: Vec<(String, String)> = Vec::new();
            for (e, oh) in &kept {
                let shown = match oh {
                    AnyOh::N(x) => x.to_string(),
                    AnyOh::Z(x, _) => x.to_string(),
                };
                if *kind == 0 && !shown.contains(e.split('"').nth(1).unwrap_or("")) {
                    return format!("CHURN-MIXUP {e:?} prints as {shown:?}");
                }
                f.str(&shown);
                if *n <= 5_000 {
                    f.str(&oh.next_change(*t));
                }
                expect.push((e.clone(), shown));
            }
            // all of them are released in one burst (no lock of the library is needed for that, so the burst
            // can land in the middle of another thread's sweep / eviction) ...
            drop(kept);
            // ... and then made again from the same strings: they must print the same (an interner or cache
            // whose index went stale hands out another entry here)
            if *kind != 2 {
                for (e, shown) in &expect {
                    if let Ok(again) = build(e, &Ctx::Default) {
                        let shown2 = match &again {
                            AnyOh::N(x) => x.to_string(),
                            AnyOh::Z(x, _) => x.to_string(),
                        };
                        if shown2 != *shown {
                            return format!("CHURN-MIXUP {e:?} printed as {shown:?}, made again it prints as {shown2:?}");
                        }
                    }
                }
            }
            format!("churn {:016x}", f.0)
        }
        Op::EditedCalendar { e, k, t, n } => match OpeningHours::parse(e) {
            Ok(base) => {
                let orig = custom_holidays(*k);
                let oh_a = AnyOh::N(base.clone().with_context(Context::default().with_holidays(orig.clone())));
                let ra = take_n(oh_a.iter(*t), *n).join("");
                // a copy of the calendar that has just been queried, edited through the public year-level API
                let mut cal = (*orig.get_public()).clone();
                for d in custom_edit_dates(*k) {
                    match cal.year_for_mut(d) {
                        Some(y) => {
                            y.insert(chrono::Datelike::month(&d), chrono::Datelike::day(&d));
                        }
                        None => {
                            cal.insert(d);
                        }
                    }
                }
                let oh_b = AnyOh::N(base.with_context(Context::default().with_holidays(opening_hours::ContextHolidays::new(Arc::new(cal), Arc::default()))));
                let rb = take_n(oh_b.iter(*t), *n).join("");
                let ra2 = take_n(oh_a.iter(*t), *n).join("");
                format!("{ra} | {rb} | {ra2}")
            }
            Err(e) => {
                let m = format!("parse error: {e}");
                format!("{m} | {m} | {m}")
            }
        },
        Op::Nested { e, inner, t, n, reentrant } => nested_eval(e, inner, *t, *n, *reentrant),
        Op::Zip { e1, t1, e2, t2, n } => match (build(e1, &Ctx::Default), build(e2, &Ctx::Default)) {
            (Ok(a), Ok(b)) => {
                let (mut ia, mut ib) = (a.iter(*t1), b.iter(*t2));
                let (mut va, mut vb) = (Vec::new(), Vec::new());
                let (mut da, mut db) = (false, false);
                for _ in 0..*n {
                    if !da {
                        match ia.next() {
                            Some(s) => va.push(s),
                            None => da = true,
                        }
                    }
                    if !db {
                        match ib.next() {
                            Some(s) => vb.push(s),
                            None => db = true,
                        }
                    }
                }
                drop((ia, ib));
                // rendered exactly like two independent `Iter` operations
                format!("{} | {}", take_n(Box::new(va.into_iter()), *n).join(""), take_n(Box::new(vb.into_iter()), *n).join(""))
            }
            (Err(m), _) | (_, Err(m)) => format!("{m} | {m}"),
        },
        Op::Revisit { e, c, t1, t2 } => match build(e, c) {
            Ok(oh) => {
                let sn = |t: i64| simcore::catch(|| format!("{} {}", oh.state(t), oh.next_change(t))).unwrap_or_else(|m| format!("PANIC: {m}"));
                let a = sn(*t1);
                let b = sn(*t2);
                let a2 = sn(*t1);
                format!("{a} | {b} | {a2}")
            }
            Err(m) => format!("{m} | {m} | {m}"),
        },
        Op::Recontext { e, c1, c2, t } => match OpeningHours::parse(e) {
            Ok(base) => {
                // each part is rendered on its own (an unwinding part must not take the others with it)
                let sn = |v: &Result<AnyOh, String>| match v {
                    Ok(oh) => simcore::catch(|| format!("{} {}", oh.state(*t), oh.next_change(*t))).unwrap_or_else(|m| format!("PANIC: {m}")),
                    Err(m) => m.clone(),
                };
                let v1 = build_from(base.clone(), c1);
                let v2 = build_from(base.clone(), c2);
                drop(base);
                let a = sn(&v1);
                let b = sn(&v2);
                let a2 = sn(&v1);
                format!("{a} | {b} | {a2}")
            }
            Err(err) => {
                let m = format!("parse error: {err}");
                format!("{m} | {m} | {m}")
            }
        },
        Op::Shared { i, t } => match pre {
            Some((sh, _)) => match &sh[*i as usize % sh.len()] {
                Ok(oh) => format!("{} {}", oh.state(*t), oh.next_change(*t)),
                Err(m) => m.clone(),
            },
            None => unreachable!("Shared is rewritten for the reference"),
        },
        Op::SharedIter { i, t, n } => match pre {
            Some((sh, _)) => match &sh[*i as usize % sh.len()] {
                Ok(oh) => take_n(oh.iter(*t), *n).join(""),
                Err(m) => m.clone(),
            },
            None => unreachable!("SharedIter is rewritten for the reference"),
        },
        Op::Holidays(cc) => match cc.parse::<Country>() {
            Ok(country) => {
                let h = country.holidays();
                let p: Vec<NaiveDate> = h.get_public().iter().collect();
                let s: Vec<NaiveDate> = h.get_school().iter().collect();
                format!("public={} count={} school={} count={}", digest(p.iter()), h.get_public().count(), digest(s.iter()), h.get_school().count())
            }
            Err(_) => "unknown country".into(),
        },
        Op::HolidayOn { cc, date, school } => match (cc.parse::<Country>(), NaiveDate::from_ymd_opt(date.0, date.1, date.2)) {
            (Ok(country), Some(d)) => {
                let oh = OpeningHours::parse(if *school { "SH" } else { "PH" }).expect("PH parses").with_context(Context::default().with_holidays(country.holidays()));
                let h = country.holidays();
                let direct = if *school { h.get_school().contains(d) } else { h.get_public().contains(d) };
                format!("{:?} contains={direct}", oh.state(d.and_hms_opt(12, 0, 0).unwrap()))
            }
            _ => "unknown country or date".into(),
        },
        Op::CountryAt(lat, lon) => match coords(*lat, *lon) {
            Some(c) => format!("{:?}", Country::try_from_coords(c)),
            None => "invalid coordinates".into(),
        },
        Op::TzAt(lat, lon) => match coords(*lat, *lon) {
            Some(c) => TzLocation::from_coords(c).get_timezone().name().to_string(),
            None => "invalid coordinates".into(),
        },
        Op::Send { chan, e, c, t, k } => {
            let Some(ch) = chans else { unreachable!("Send is rewritten for the reference") };
            // Whatever happens on this side (parse error, an evaluation that unwinds), the receiver gets a
            // message: the hand-off protocol is the harness's, and a receiver left waiting would be reported
            // as a deadlock of the library.
            let prepared = simcore::catch(|| match build(e, c) {
                Ok(oh) => {
                    let mut it = oh.iter(*t);
                    drop(oh); // the iterator must not depend on the value it was created from
                    let mut first = Vec::new();
                    for _ in 0..*k {
                        match it.next() {
                            Some(s) => first.push(s),
                            None => break,
                        }
                    }
                    (first, it)
                }
                Err(m) => (vec![m], Box::new(std::iter::empty()) as Box<dyn Iterator<Item = String> + Send>),
            });
            let (first, it): Msg = match prepared {
                Ok(x) => x,
                Err(m) => (vec![format!("PANIC: {m}")], Box::new(std::iter::empty())),
            };
            let out = first.join("");
            let tx = ch.tx[*chan as usize].lock().unwrap().take();
            if let Some(tx) = tx {
                let _ = tx.send((first, it));
            }
            out
        }
        Op::Recv { chan, n, .. } => {
            let Some(ch) = chans else { unreachable!("Recv is rewritten for the reference") };
            let rx = ch.rx[*chan as usize].lock().unwrap().take();
            match rx.map(|rx| rx.recv()) {
                Some(Ok((first, it))) => {
                    let mut all = first;
                    all.extend(take_n(it, *n));
                    all.join("")
                }
                _ => "HANDOFF-LOST".into(),
            }
        }
    }
}

/// The sequential operations whose results (joined by " | ") a (possibly
/// cross-thread, possibly compound) operation must reproduce. Compound
/// operations are referred to *independently built* values, so that state
/// leaking between the parts cannot hide in the reference.
pub fn reference_ops(op: &Op, prebuilt: &[(String, Ctx)]) -> Vec<Op> {
    match op {
        Op::Revisit { e, c, t1, t2 } => vec![
            Op::StateNext { e: e.clone(), c: c.clone(), t: *t1 },
            Op::StateNext { e: e.clone(), c: c.clone(), t: *t2 },
            Op::StateNext { e: e.clone(), c: c.clone(), t: *t1 },
        ],
        Op::EditedCalendar { e, k, t, n } => vec![
            Op::Iter { e: e.clone(), c: Ctx::Custom(*k), t: *t, n: *n },
            Op::Iter { e: e.clone(), c: Ctx::CustomEdited(*k), t: *t, n: *n },
            Op::Iter { e: e.clone(), c: Ctx::Custom(*k), t: *t, n: *n },
        ],
        Op::Zip { e1, t1, e2, t2, n } => vec![
            Op::Iter { e: e1.clone(), c: Ctx::Default, t: *t1, n: *n },
            Op::Iter { e: e2.clone(), c: Ctx::Default, t: *t2, n: *n },
        ],
        Op::Recontext { e, c1, c2, t } => vec![
            Op::StateNext { e: e.clone(), c: c1.clone(), t: *t },
            Op::StateNext { e: e.clone(), c: c2.clone(), t: *t },
            Op::StateNext { e: e.clone(), c: c1.clone(), t: *t },
        ],
        other => vec![reference_op(other, prebuilt)],
    }
}

fn reference_op(op: &Op, prebuilt: &[(String, Ctx)]) -> Op {
    match op {
        Op::Shared { i, t } => {
            let (e, c) = &prebuilt[*i as usize % prebuilt.len()];
            Op::StateNext { e: e.clone(), c: c.clone(), t: *t }
        }
        Op::SharedIter { i, t, n } => {
            let (e, c) = &prebuilt[*i as usize % prebuilt.len()];
            Op::Iter { e: e.clone(), c: c.clone(), t: *t, n: *n }
        }
        Op::Send { e, c, t, k, .. } => Op::Iter { e: e.clone(), c: c.clone(), t: *t, n: *k },
        Op::Recv { e, c, t, k, n, .. } => Op::Iter { e: e.clone(), c: c.clone(), t: *t, n: *k + *n },
        // the reference of a re-entrant evaluation asked the inner schedule beforehand
        Op::Nested { e, inner, t, n, .. } => Op::Nested { e: e.clone(), inner: inner.clone(), t: *t, n: *n, reentrant: false },
        other => other.clone(),
    }
}
