//! Executes a workload inside one shuttle execution under a scheduler the
//! harness owns, computes the sequential references, and applies the oracles.

use std::collections::HashMap;
use std::sync::{Arc, Mutex, RwLock};

use shuttle::scheduler::{PctScheduler, RandomScheduler, RoundRobinScheduler, Scheduler};
use shuttle::{Config, FailurePersistence, MaxSteps, Runner};
use serde::{Deserialize, Serialize};
use simcore::Fp;

use crate::proc::{in_child, ChildErr};

use crate::datafiles::{digest, DataFiles};
use crate::eval::{self, Chans, Shared};
use crate::sched::{Recorded, Recording, Scripted};
use crate::work::{ExecCfg, Op, SchedSpec, Workload};

pub const MAX_STEPS: usize = 2_000_000;

#[derive(Clone, Debug, Default, Serialize, Deserialize)]
pub struct Stats {
    pub probe_hits: Vec<(String, u64)>,
    pub probe_yields: u64,
    pub first_use_order: Vec<(String, u64, u64)>,
    pub contended_first_use: u64,
    pub lazy_forces: u64,
    pub once_calls: u64,
    pub reads: u64,
    pub short_reads: u64,
    pub eintr_reads: u64,
    #[serde(default)]
    pub clock_jumps: u64,
    #[serde(default)]
    pub clock_reads: u64,
    #[serde(default)]
    pub dep_atomic_ops: u64,
    #[serde(default)]
    pub fn_entries: u64,
    #[serde(default)]
    pub stalls: u64,
    #[serde(default)]
    pub holds: u64,
    #[serde(default)]
    pub stall_switches: u64,
    pub interleaving_sig: u64,
}

impl From<oh_verif_rt::ExecStats> for Stats {
    fn from(s: oh_verif_rt::ExecStats) -> Self {
        Stats {
            probe_hits: s.probe_hits.iter().map(|(k, v)| (k.to_string(), *v)).collect(),
            probe_yields: s.probe_yields,
            first_use_order: s.first_use_order.iter().map(|(n, a, t)| (n.to_string(), *a as u64, *t as u64)).collect(),
            contended_first_use: s.contended_first_use,
            lazy_forces: s.lazy_forces,
            once_calls: s.once_calls,
            reads: s.reads,
            short_reads: s.short_reads,
            eintr_reads: s.eintr_reads,
            clock_jumps: s.clock_jumps + oh_verif_rt::time::stats().1,
            clock_reads: oh_verif_rt::time::stats().0,
            dep_atomic_ops: s.dep_atomic_ops,
            fn_entries: s.fn_entries,
            stalls: s.stalls,
            holds: s.holds,
            stall_switches: s.stall_switches,
            interleaving_sig: s.interleaving_sig,
        }
    }
}

#[derive(Clone, Debug, Serialize, Deserialize)]
pub struct ExecOut {
    pub results: Vec<Vec<String>>,
    pub later: Vec<Vec<String>>,
    pub stats: Stats,
}

#[derive(Clone, Debug)]
pub struct Fail {
    pub class: String,
    pub detail: String,
}

fn rt_cfg(c: &ExecCfg) -> oh_verif_rt::ExecConfig {
    oh_verif_rt::ExecConfig {
        probe_yield_permille: c.probe_yield_permille,
        probe_sites_enabled: c.probe_sites_enabled,
        probe_yield_budget: c.probe_yield_budget,
        read_short_permille: c.read_short_permille,
        read_eintr_permille: c.read_eintr_permille,
        schedule_call_limit: 0,
        clock_jump_permille: c.clock_jump_permille,
        stall_period: c.stall_period,
        stall_seed: c.stall_seed,
        stall_budget: c.stall_budget,
        hold_permille: c.hold_permille,
        stall_tasks: c.stall_tasks,
    }
}

fn shuttle_config() -> Config {
    let mut cfg = Config::new();
    cfg.stack_size = 8 << 20;
    cfg.failure_persistence = FailurePersistence::None;
    cfg.max_steps = MaxSteps::FailAfter(MAX_STEPS);
    cfg.silence_warnings = true;
    cfg
}

/// Run `f` as the only iteration of a shuttle run under scheduler `s`;
/// a panic inside the execution (including shuttle's own deadlock / step
/// budget reports) is returned as Err(message).
fn run_once<S: Scheduler + 'static>(s: S, f: impl Fn() + Send + Sync + 'static) -> Result<(), String> {
    let runner = Runner::new(s, shuttle_config());
    simcore::catch(move || {
        runner.run(f);
    })
}

fn body(w: &Workload) -> ExecOut {
    oh_verif_rt::begin_execution(rt_cfg(&w.cfg));
    // values shared by all client threads are built by the main thread
    let pre: Shared = Arc::new(w.prebuilt.iter().map(|(e, c)| eval::build(e, c)).collect());
    let n_chan = w.threads.iter().flatten().filter(|o| matches!(o, Op::Send { .. })).count();
    let mut tx = Vec::new();
    let mut rx = Vec::new();
    for _ in 0..n_chan {
        let (t, r) = shuttle::sync::mpsc::channel::<eval::Msg>();
        tx.push(Mutex::new(Some(t)));
        rx.push(Mutex::new(Some(r)));
    }
    let chans = Arc::new(Chans { tx, rx });
    let prebuilt = Arc::new(w.prebuilt.clone());
    let handles: Vec<_> = w
        .threads
        .iter()
        .cloned()
        .map(|prog| {
            let (pre, chans, prebuilt) = (pre.clone(), chans.clone(), prebuilt.clone());
            shuttle::thread::spawn(move || prog.iter().map(|op| eval::eval(op, Some((&pre, &prebuilt)), Some(&chans))).collect::<Vec<String>>())
        })
        .collect();
    let results: Vec<Vec<String>> = handles.into_iter().map(|h| h.join().unwrap_or_else(|_| vec!["THREAD-PANICKED".into()])).collect();
    // later use: the main thread recomputes everything once more, sequentially
    let later: Vec<Vec<String>> = w
        .threads
        .iter()
        .map(|prog| prog.iter().map(|op| eval::reference_ops(op, &w.prebuilt).iter().map(|r| eval::eval(r, None, None)).collect::<Vec<_>>().join(" | ")).collect())
        .collect();
    drop(pre);
    let stats = oh_verif_rt::end_execution().into();
    ExecOut { results, later, stats }
}

#[derive(Clone, Debug, Serialize, Deserialize)]
pub struct Executed {
    pub out: Result<ExecOut, String>,
    pub schedule: Recorded,
    pub diverged: Option<String>,
}

fn harness_exit(m: &str) -> ! {
    eprintln!("harness error: {m}");
    println!("harness error: {m}");
    std::process::exit(2)
}

/// Execute the workload in a fresh (forked) process: under its recorded
/// explicit schedule if it has one, otherwise under the seeded scheduler it names.
pub fn execute(w: &Workload) -> Executed {
    match in_child(simcore::run_timeout(), || execute_here(w)) {
        Ok(e) => e,
        Err(ChildErr::Hang) => Executed { out: Err(format!("HANG: the execution did not finish within {} s", simcore::run_timeout().as_secs())), schedule: w.schedule.clone().unwrap_or_default(), diverged: None },
        Err(ChildErr::Crashed(why)) => Executed { out: Err(format!("CRASH: the process running the execution died: {why}")), schedule: w.schedule.clone().unwrap_or_default(), diverged: None },
        Err(ChildErr::Harness(m)) => harness_exit(&m),
    }
}

fn execute_here(w: &Workload) -> Executed {
    let slot: Arc<Mutex<Option<ExecOut>>> = Arc::new(Mutex::new(None));
    let wl = Arc::new(w.clone());
    let f = {
        let (slot, wl) = (slot.clone(), wl.clone());
        move || {
            let out = body(&wl);
            *slot.lock().unwrap() = Some(out);
        }
    };
    let (res, schedule, diverged) = if let Some(rec) = &w.schedule {
        let (s, d) = Scripted::new(rec.clone());
        let r = run_once(s, f);
        let dv = d.borrow().clone();
        (r, rec.clone(), dv)
    } else {
        match &w.sched {
            SchedSpec::Random { seed } => {
                let (s, log) = Recording::new(RandomScheduler::new_from_seed(*seed, 1));
                let r = run_once(s, f);
                let l = log.borrow().clone();
                (r, l, None)
            }
            SchedSpec::Pct { seed, depth } => {
                let (s, log) = Recording::new(PctScheduler::new_from_seed(*seed, *depth as usize, 1));
                let r = run_once(s, f);
                let l = log.borrow().clone();
                (r, l, None)
            }
            SchedSpec::RoundRobin => {
                let (s, log) = Recording::new(RoundRobinScheduler::new(1));
                let r = run_once(s, f);
                let l = log.borrow().clone();
                (r, l, None)
            }
        }
    };
    let out = match res {
        Ok(()) => slot.lock().unwrap().take().ok_or_else(|| "execution produced no result".to_string()),
        Err(m) => Err(m),
    };
    Executed { out, schedule, diverged }
}

/// Sequential references, memoised across runs and workers. The content is a
/// pure function of the operation as long as the library is sequentially pure
/// (which is itself checked: every reference is computed in two different
/// sequential histories that must agree).
pub struct Refs {
    memo: RwLock<HashMap<Op, String>>,
    pub executions: std::sync::atomic::AtomicU64,
}

impl Refs {
    pub fn new() -> Self {
        Refs { memo: RwLock::new(HashMap::new()), executions: Default::default() }
    }

    pub fn get(&self, op: &Op) -> Option<String> {
        self.memo.read().unwrap().get(op).cloned()
    }

    fn seq_exec(ops: Vec<Op>) -> Result<Vec<String>, String> {
        match in_child(simcore::run_timeout(), || Self::seq_exec_here(ops.clone())) {
            Ok(r) => r,
            Err(ChildErr::Hang) => Err("HANG: sequential reference pass did not finish".into()),
            Err(ChildErr::Crashed(why)) => Err(format!("CRASH: sequential reference pass died: {why}")),
            Err(ChildErr::Harness(m)) => harness_exit(&m),
        }
    }

    fn seq_exec_here(ops: Vec<Op>) -> Result<Vec<String>, String> {
        let slot: Arc<Mutex<Option<Vec<String>>>> = Arc::new(Mutex::new(None));
        let s2 = slot.clone();
        run_once(RoundRobinScheduler::new(1), move || {
            oh_verif_rt::begin_execution(oh_verif_rt::ExecConfig::default());
            let r: Vec<String> = ops.iter().map(|op| eval::eval(op, None, None)).collect();
            let _ = oh_verif_rt::end_execution();
            *s2.lock().unwrap() = Some(r);
        })?;
        let r = slot.lock().unwrap().take();
        r.ok_or_else(|| "reference execution produced no result".to_string())
    }

    /// Make sure every (reference form of an) operation of `w` has a memoised sequential result.
    pub fn ensure(&self, w: &Workload) -> Result<(), Fail> {
        let mut missing: Vec<Op> = Vec::new();
        {
            let memo = self.memo.read().unwrap();
            for op in w.threads.iter().flatten() {
                for r in eval::reference_ops(op, &w.prebuilt) {
                    if !memo.contains_key(&r) && !missing.contains(&r) {
                        missing.push(r);
                    }
                }
            }
        }
        if missing.is_empty() {
            return Ok(());
        }
        self.executions.fetch_add(2, std::sync::atomic::Ordering::Relaxed);
        let cls = |m: &str| if m.starts_with("HANG") { "hang" } else if m.starts_with("CRASH") { "crash" } else { "panic" }.to_string();
        let fwd = Self::seq_exec(missing.clone()).map_err(|m| Fail { class: cls(&m), detail: format!("sequential reference execution failed: {m}") })?;
        let mut rev_ops = missing.clone();
        rev_ops.reverse();
        let mut rev = Self::seq_exec(rev_ops).map_err(|m| Fail { class: cls(&m), detail: format!("sequential reference execution failed: {m}") })?;
        rev.reverse();
        for ((op, a), b) in missing.iter().zip(&fwd).zip(&rev) {
            if a != b {
                return Err(Fail {
                    class: "sequential_order_dependence".into(),
                    detail: format!("{op:?} evaluates to {a:?} in one sequential history and to {b:?} in another (same operations, reversed order, fresh process state each)"),
                });
            }
        }
        let mut memo = self.memo.write().unwrap();
        for (op, a) in missing.into_iter().zip(fwd) {
            memo.entry(op).or_insert(a);
        }
        Ok(())
    }
}

fn expected_holidays(data: &DataFiles, cc: &str) -> String {
    let empty = Default::default();
    let p = data.public.get(cc).unwrap_or(&empty);
    let s = data.school.get(cc).unwrap_or(&empty);
    format!("public={} count={} school={} count={}", digest(p.iter()), p.len(), digest(s.iter()), s.len())
}

fn expected_holiday_on(data: &DataFiles, cc: &str, date: (i32, u32, u32), school: bool) -> Option<String> {
    let d = chrono::NaiveDate::from_ymd_opt(date.0, date.1, date.2)?;
    let set = if school { data.school.get(cc) } else { data.public.get(cc) };
    let listed = set.map_or(false, |s| s.contains(&d));
    Some(format!("{} contains={listed}", if listed { "Open" } else { "Closed" }))
}

/// Apply the oracles to a finished execution.
pub fn judge(w: &Workload, ex: &Executed, refs: &Refs, data: &DataFiles) -> Option<Fail> {
    let out = match &ex.out {
        Ok(o) => o,
        Err(m) => {
            let class = if m.starts_with("HANG") {
                "hang"
            } else if m.starts_with("CRASH") {
                "crash"
            } else if m.contains("deadlock") {
                "deadlock"
            } else if m.contains("exceeded max_steps") || m.contains("max_steps") {
                "step_budget_exceeded"
            } else {
                "panic"
            };
            return Some(Fail { class: class.into(), detail: format!("the concurrent execution did not complete: {m}") });
        }
    };
    for (ti, prog) in w.threads.iter().enumerate() {
        for (oi, op) in prog.iter().enumerate() {
            let got = out.results.get(ti).and_then(|r| r.get(oi)).cloned().unwrap_or_else(|| "MISSING".into());
            let later = out.later.get(ti).and_then(|r| r.get(oi)).cloned().unwrap_or_else(|| "MISSING".into());
            let want = eval::reference_ops(op, &w.prebuilt).iter().map(|r| refs.get(r).unwrap_or_else(|| "NO-REFERENCE".into())).collect::<Vec<_>>().join(" | ");
            if got.starts_with("CLONE-DIFFERS") {
                return Some(Fail { class: "clone_differs".into(), detail: format!("thread {ti} op {oi} {op:?}: {got}") });
            }
            if got == "HANDOFF-LOST" {
                return Some(Fail { class: "handoff_lost".into(), detail: format!("thread {ti} op {oi} {op:?}: the iterator never arrived") });
            }
            if got != want {
                return Some(Fail { class: "concurrent_result_differs".into(), detail: format!("thread {ti} op {oi} {op:?}: concurrent execution returned {got:?}, a single sequential call returns {want:?}") });
            }
            if later != want {
                return Some(Fail { class: "later_use_differs".into(), detail: format!("thread {ti} op {oi} {op:?}: recomputed after all threads joined gives {later:?}, a single sequential call returns {want:?}") });
            }
            // independent data-file oracle (C10)
            let exp = match op {
                Op::Holidays(cc) => Some(expected_holidays(data, cc)),
                Op::HolidayOn { cc, date, school } => expected_holiday_on(data, cc, *date, *school),
                _ => None,
            };
            if let Some(exp) = exp {
                if got != exp {
                    return Some(Fail { class: "holiday_data_mismatch".into(), detail: format!("thread {ti} op {oi} {op:?}: library says {got:?}, the data files say {exp:?}") });
                }
            }
        }
    }
    None
}

pub fn fingerprint(ex: &Executed) -> u64 {
    let mut f = Fp::default();
    match &ex.out {
        Ok(o) => {
            for r in o.results.iter().chain(o.later.iter()) {
                for s in r {
                    f.str(s);
                }
            }
            f.u64(o.stats.interleaving_sig);
            for (n, _, t) in &o.stats.first_use_order {
                f.str(n);
                f.u64(*t);
            }
        }
        Err(m) => f.str(m),
    }
    f.u64(ex.schedule.tasks.len() as u64);
    for t in &ex.schedule.tasks {
        f.u64(*t as u64);
    }
    f.0
}
