//! Schedulers owned by the harness: a recording wrapper around shuttle's seeded
//! Random / PCT schedulers (so every run's schedule is available explicitly,
//! not only failing ones), and a scripted scheduler that replays a recorded
//! schedule exactly.

use std::cell::RefCell;
use std::rc::Rc;

use serde::{Deserialize, Serialize};
use shuttle::scheduler::{Schedule, Scheduler, Task, TaskId};

#[derive(Serialize, Deserialize, Clone, Debug, Default, PartialEq, Eq)]
pub struct Recorded {
    /// task chosen at each scheduling decision
    pub tasks: Vec<u32>,
    /// values handed out through shuttle::rand
    pub rands: Vec<u64>,
}

impl Recorded {
    pub fn context_switches(&self) -> usize {
        self.tasks.windows(2).filter(|w| w[0] != w[1]).count()
    }
}

pub struct Recording<S: Scheduler> {
    inner: S,
    pub log: Rc<RefCell<Recorded>>,
}

impl<S: Scheduler> Recording<S> {
    pub fn new(inner: S) -> (Self, Rc<RefCell<Recorded>>) {
        let log = Rc::new(RefCell::new(Recorded::default()));
        (Recording { inner, log: log.clone() }, log)
    }
}

impl<S: Scheduler> Scheduler for Recording<S> {
    fn new_execution(&mut self) -> Option<Schedule> {
        let s = self.inner.new_execution();
        if s.is_some() {
            *self.log.borrow_mut() = Recorded::default();
        }
        s
    }
    fn next_task(&mut self, runnable: &[&Task], current: Option<TaskId>, is_yielding: bool) -> Option<TaskId> {
        let t = self.inner.next_task(runnable, current, is_yielding);
        if let Some(t) = t {
            self.log.borrow_mut().tasks.push(usize::from(t) as u32);
        }
        t
    }
    fn next_u64(&mut self) -> u64 {
        let v = self.inner.next_u64();
        self.log.borrow_mut().rands.push(v);
        v
    }
}

/// Replays a recorded schedule. If the recorded task is not runnable the
/// execution has diverged from the recording: `diverged` is set and the first
/// runnable task is chosen so that the execution still terminates.
pub struct Scripted {
    rec: Recorded,
    t: usize,
    r: usize,
    done: bool,
    pub diverged: Rc<RefCell<Option<String>>>,
}

impl Scripted {
    pub fn new(rec: Recorded) -> (Self, Rc<RefCell<Option<String>>>) {
        let d = Rc::new(RefCell::new(None));
        (Scripted { rec, t: 0, r: 0, done: false, diverged: d.clone() }, d)
    }
}

impl Scheduler for Scripted {
    fn new_execution(&mut self) -> Option<Schedule> {
        if self.done {
            None
        } else {
            self.done = true;
            Some(Schedule::new(0))
        }
    }
    fn next_task(&mut self, runnable: &[&Task], _current: Option<TaskId>, _is_yielding: bool) -> Option<TaskId> {
        let want = self.rec.tasks.get(self.t).copied();
        self.t += 1;
        match want {
            Some(w) if runnable.iter().any(|t| usize::from(t.id()) as u32 == w) => Some(TaskId::from(w as usize)),
            other => {
                let mut d = self.diverged.borrow_mut();
                if d.is_none() {
                    *d = Some(format!("step {}: recorded task {:?} not runnable (runnable: {:?})", self.t - 1, other, runnable.iter().map(|t| usize::from(t.id())).collect::<Vec<_>>()));
                }
                runnable.first().map(|t| t.id())
            }
        }
    }
    fn next_u64(&mut self) -> u64 {
        let v = self.rec.rands.get(self.r).copied();
        self.r += 1;
        match v {
            Some(v) => v,
            None => {
                let mut d = self.diverged.borrow_mut();
                if d.is_none() {
                    *d = Some(format!("random draw #{} beyond the recording", self.r - 1));
                }
                0
            }
        }
    }
}
