//! Fixed pools the workloads draw from. The expression pool is pre-screened
//! *sequentially* (inside a single-thread execution): an expression whose
//! sequential evaluation panics or needs more than a fixed number of
//! `schedule_at` calls is excluded and listed in the evidence — those are
//! totality matters (C04), not purity matters. The cost measure is the
//! deterministic probe counter, never wall-clock time.

use chrono::{Datelike, NaiveDate};
use opening_hours::localization::Country;
use simcore::Rng;

use crate::datafiles::DataFiles;
use crate::eval;
use crate::work::{Ctx, Op};

/// the part of the pools that needs the library to compute (done in a forked child)
#[derive(Clone, Debug, serde::Serialize, serde::Deserialize)]
pub struct Screened {
    pub exprs: Vec<String>,
    pub holiday_exprs: Vec<String>,
    pub easter_exprs: Vec<String>,
    pub excluded: Vec<(String, String)>,
    /// expressions whose sequential evaluation panics on the unchanged tree (a totality matter, C04); they are
    /// kept as a *fault*: an evaluation that unwinds half-way must not change what later evaluations return
    pub panicking_exprs: Vec<String>,
    /// expressions whose state changes (almost) every day: 12 intervals need at most 40 `schedule_at` calls.
    /// Only these are used for long streams (hundreds of intervals).
    pub dense_exprs: Vec<String>,
    pub countries: Vec<String>,
    /// pairs of places ~20 m apart on opposite sides of a time-zone border (1e-4 degrees), found by
    /// walking along lines between cities with the library's own zone lookup
    pub border_pairs: Vec<((i32, i32), (i32, i32))>,
    /// pairs of parseable expressions that differ in spacing only (a cache or interner with a
    /// normalised key would conflate them)
    pub spacing_variants: Vec<(String, String)>,
    /// dense expressions whose `normalize()`d form does not evaluate like the original on the tree being checked
    /// (an observation outside the claimed properties, DESIGN.md section 8): whatever switches between the two
    /// representations of a value shows on exactly these
    #[serde(default)]
    pub lossy_normal_exprs: Vec<String>,
    /// long expressions (0.4 - 2.5 kB): several pool expressions one after the other as a rule sequence
    #[serde(default)]
    pub long_exprs: Vec<String>,
}

pub struct Pools {
    pub exprs: Vec<String>,
    pub holiday_exprs: Vec<String>,
    pub easter_exprs: Vec<String>,
    pub sun_exprs: Vec<String>,
    pub panicking_exprs: Vec<String>,
    pub dense_exprs: Vec<String>,
    pub invalid_exprs: Vec<String>,
    pub excluded: Vec<(String, String)>,
    pub countries: Vec<String>,
    pub zones: Vec<&'static str>,
    pub coords: Vec<(i32, i32)>,
    /// coordinates used in evaluation contexts: |latitude| <= 60 degrees (beyond that the sun may not
    /// rise or set for months and event-based expressions make the library scan for a long time --
    /// a bounded-work matter, not a purity matter)
    pub sun_coords: Vec<(i32, i32)>,
    pub border_pairs: Vec<((i32, i32), (i32, i32))>,
    pub spacing_variants: Vec<(String, String)>,
    pub lossy_normal_exprs: Vec<String>,
    pub long_exprs: Vec<String>,
    pub instants: Vec<i64>,
    pub data: DataFiles,
}

const HAND_WRITTEN: &[&str] = &[
    "24/7",
    "Mo-Fr 09:00-17:00",
    "Mo-Fr 08:00-12:00,13:00-17:30; Sa 08:00-12:00",
    "Mo-Su 10:00-02:00",
    "22:00-06:00",
    "sunrise-sunset",
    "dawn-dusk",
    "(sunrise+01:00)-(sunset-00:30)",
    "Mo-Fr 10:00-18:00 \"by appointment\"; Sa 10:00-14:00 unknown \"maybe\"",
    "10:00-12:00 open \"a\", 11:00-14:00 unknown \"b\"",
    "Mo-Fr 09:00-17:00 || \"call us\"",
    "Mo-Fr 09:00-17:00 || Sa 10:00-12:00 unknown || closed \"fallback\"",
    "week 01-53/2 Mo 10:00-12:00",
    "Jan-Mar 10:00-16:00; Apr-Sep 09:00-18:00; Oct-Dec 10:00-16:00",
    "2024 Feb 29 10:00-12:00",
    "Dec 25-Jan 06 off; Mo-Sa 09:00-19:00",
    "Mo[1] 10:00-12:00; Fr[-1] 14:00-16:00",
    "Th[2]-Sa 10:00-12:00",
    "Mo-Fr 09:00+",
    "00:00-24:00; Su off",
    "Sa,Su 00:00-24:00",
    "Mo 10:00-26:00",
    "2020-2030/2 Mo-Fr 09:00-12:00",
    "Jun 15-Aug 31: Mo-Su 09:00-21:00",
    "Mo-Fr 07:30-19:00; Sa 08:00-13:00; Su off",
    "Tu-Sa 12:00-14:00, 19:30-22:30; Su 12:00-14:00",
    // rules bound to a span of years, next to a rule that keeps changing every day (alone, such an expression
    // stops changing after its last year and is excluded by the work budget at the later instants)
    "Mo-Fr 09:00-17:00; 2020-2024 Sa 10:00-14:00",
    "Mo-Su 08:00-20:00; 2021-2023 Su off",
    "2022-2026 Mo-Su 10:00-12:00; Mo-Fr 14:00-18:00",
    "Mo-Sa 10:00-19:00; 2024 Dec 24 10:00-14:00; 2025 Jan 02 off",
    "Mo-Fr 08:00-18:00; 1999-2030/3 We off",
    "2025+ Mo-Fr 07:00-15:00; Sa,Su 10:00-12:00",
    // bounds inside the hour (half hour) most zones skip in spring
    "02:15-02:45",
    "00:00-02:30",
    "Sa 22:00-26:10, Su 02:50-06:00",
    "02:00-03:00 off; 00:00-24:00",
    // the same rule twice (a normalizer that deduplicates must keep the order of the survivors)
    "Mo-Fr 10:00-18:00 ; PH off ; Sa 10:00-12:00 ; PH off",
    "Mo-Sa 09:00-19:00; Su off; Sa 09:00-13:00; Su off",
    "Mo-Fr 08:00-12:00 unknown \"a\"; Sa 08:00-10:00; Mo-Fr 08:00-12:00 unknown \"a\"; Su off",
    // positional weekdays (last / fourth of the month)
    "Mo[-1] 10:00-12:00",
    "Su[-1],Su[4] 09:00-13:00; Fr[-1] off",
    // evaluation of these unwinds on the unchanged tree (extended time beyond 48:00 built from a sun event);
    // the pre-screen moves them to the "panicking" pool
    "10:00-12:00,(sunset+06:00)-25:00",
    "Mo-Fr 08:00-09:00,(dusk+05:30)-26:00",
];

const HOLIDAY_EXPRS: &[&str] = &[
    "PH",
    "SH",
    "PH off",
    "Mo-Fr 09:00-17:00; PH off",
    "Mo-Sa 08:00-20:00; PH 10:00-16:00",
    "SH Mo-Fr 10:00-12:00",
    "Mo-Fr 08:00-16:00; SH off; PH off",
    "PH,Su 10:00-13:00",
    "24/7; PH off \"holiday\"",
    "PH +1 day off; Mo-Su 09:00-18:00",
    "PH -1 day 09:00-12:00",
    "SH,PH Mo-Fr 09:00-11:00",
    "Mo-Su off; PH 10:00-12:00",
    "PH 08:00-20:00 || off",
];

const EASTER_EXPRS: &[&str] = &[
    "easter 10:00-12:00",
    "easter -2 days-easter +1 day: 09:00-20:00",
    "easter +49 days off; Mo-Fr 09:00-18:00",
    "2024 easter-2024 Dec 24 10:00-18:00",
    "Mo-Sa 09:00-19:00; easter off",
    // other selectors whose answer depends on the year in a way of their own (each has its own branch in the
    // date filters: a table or memo built there is keyed by the year of whoever came first)
    "Feb 29",
    "Feb 29 10:00-12:00",
    "Mo-Fr 09:00-17:00; Feb 29 off",
    "Feb 29 +1 day 10:00-12:00",
    "Feb 28-Mar 01 10:00-12:00",
    "Dec 31-Jan 01 off; Mo-Su 10:00-18:00",
    "week 53 Mo-Su 10:00-12:00",
    "week 52-01 off; Mo-Fr 09:00-17:00",
    "Mo[5] 10:00-12:00",
    "Jan 01 off; Dec 25-26 off; Mo-Sa 10:00-20:00",
];

const SUN_EXPRS: &[&str] = &[
    "sunrise-sunset",
    "dawn-dusk",
    "(sunrise+01:00)-(sunset-00:30)",
    "sunrise-12:00; 14:00-sunset unknown",
    "Mo-Su (dawn-00:30)-10:00, 18:00-(dusk+00:30)",
    "sunset-sunrise",
    "Sa sunset-(sunset+04:00)",
    "Fr,Sa (sunset-01:00)-(sunset+05:00); Su 10:00-12:00",
    "Mo-Fr dusk-(dusk+06:00)",
    "Su (sunrise-03:00)-sunrise",
];

/// expression pairs that differ in spacing only and mean different things
const CONFUSABLE: &[(&str, &str)] = &[
    ("Mo-Fr 08:00-12:00,13:00-17:30", "Mo-Fr 08:00-12:00, 13:00-17:30"),
    ("Jan 12:00-13:00", "Jan 1 2:00-13:00"),
    ("Mo-Fr 10:00-12:00,14:00-16:00", "Mo-Fr 10:00-12:00, 14:00-16:00"),
    ("Tu 09:00-11:00,Th 15:00-18:00", "Tu 09:00-11:00, Th 15:00-18:00"),
    ("Dec 24 10:00-14:00", "Dec 2 4:00-14:00"),
];

const INVALID: &[&str] = &["", "Mo-Fr 25:00-26:00", "not a valid expression", "Mo-Fr 09:00-17:00;;", "\"unbalanced", "Jan 32 10:00-12:00", "week 54 Mo 10:00-12:00"];

const ZONES: &[&str] = &["Europe/Paris", "America/New_York", "Asia/Kolkata", "Australia/Lord_Howe", "Pacific/Apia", "UTC", "America/St_Johns", "Asia/Tokyo"];

/// (lat, lon) in 1e-4 degrees
const COORDS: &[(i32, i32)] = &[
    (488535, 23484),     // Paris
    (407128, -740060),   // New York
    (356762, 1396503),   // Tokyo
    (-338688, 1512093),  // Sydney
    (641466, -219426),   // Reykjavik
    (-177134, 1780650),  // Fiji, next to the antimeridian
    (0, 0),              // gulf of Guinea: no country
    (-900000, 0),        // south pole
    (612181, -1499003),  // Anchorage
    (-339249, 184241),   // Cape Town
    (18720, -1574270),   // Kiritimati (+14)
    (525200, 134050),    // Berlin
    (-154, 1799999),     // antimeridian, ocean
];

/// Pairs of places ~30 m apart on opposite sides of a time-zone border (1e-4 degrees). They were found
/// once, on the unchanged tree, by walking along lines between cities (Madrid-Lisbon, Berlin-Warsaw,
/// Paris-Brussels, Vienna-Bratislava, Detroit-Chicago, Geneva-Lyon, Dallas-El Paso, Delhi-Kathmandu,
/// Santiago-Mendoza, Singapore-Johor Bahru) with the zone lookup and bisecting every change. They are
/// constants on purpose: computing them with the library under test would make the pool depend on the
/// very behaviour being checked (a change that caches lookups per grid cell moves the "borders" it finds).
const BORDER_PAIRS: &[((i32, i32), (i32, i32))] = &[
    ((393051, -72698), (393050, -72702)),
    ((524740, 146117), (524739, 146122)),
    ((503516, 38516), (503519, 38518)),
    ((481570, 170040), (481570, 170042)),
    ((419239, -871668), (419238, -871674)),
    ((461442, 59644), (461441, 59641)),
    ((321202, -1030645), (321202, -1030648)),
    ((319260, -1049183), (319260, -1049186)),
    ((281611, 813071), (281610, 813076)),
    ((281598, 813187), (281597, 813192)),
    ((-332541, -700343), (-332539, -700338)),
    ((14509, 1037647), (14510, 1037647)),
];

fn find_border_pairs() -> Vec<((i32, i32), (i32, i32))> {
    BORDER_PAIRS.to_vec()
}

pub const MAX_SCHEDULE_CALLS: u64 = 6000;

fn instants() -> Vec<i64> {
    let f = |y, m, d, hh, mm, ss| NaiveDate::from_ymd_opt(y, m, d).unwrap().and_hms_opt(hh, mm, ss).unwrap().and_utc().timestamp();
    vec![
        f(2024, 1, 1, 0, 0, 0),
        f(2024, 3, 31, 0, 30, 0),
        f(2024, 3, 29, 8, 0, 0),
        f(2024, 6, 15, 12, 34, 56),
        f(2024, 10, 27, 0, 59, 30),
        f(2024, 12, 24, 23, 59, 0),
        f(2025, 2, 28, 8, 0, 0),
        f(2030, 7, 4, 15, 0, 0),
        f(1999, 12, 31, 23, 59, 30),
        f(2021, 4, 10, 0, 5, 0),
        // around a midnight between a Saturday and a Sunday in June
        f(2024, 6, 15, 21, 30, 0),
        f(2024, 6, 16, 0, 30, 0),
        f(2024, 6, 16, 22, 15, 0),
        // years 16 / 32 / 64 after 2024 and 32 before it, next to Easter
        f(2040, 4, 1, 9, 0, 0),
        f(2056, 3, 31, 9, 0, 0),
        f(2088, 4, 10, 9, 0, 0),
        f(1992, 4, 18, 9, 0, 0),
        // the last week of February in a leap year and in a century year that is not one
        f(2096, 2, 24, 11, 0, 0),
        f(2100, 2, 22, 11, 0, 0),
    ]
}

impl Pools {
    /// Must be called inside a (single-thread) shuttle execution: parsing and the
    /// holiday contexts go through the shimmed primitives.
    pub fn screen_in_execution() -> Screened {
        let repo = std::env::var("OH_REPO").unwrap_or_else(|_| "/repo".into());
        let sample = std::fs::read_to_string(format!("{repo}/opening-hours/src/tests/data/sample.txt")).unwrap_or_else(|e| {
            eprintln!("harness error: cannot read sample.txt: {e}");
            std::process::exit(2)
        });
        let insts = instants();
        let mut excluded = Vec::new();
        let mut screen = |list: Vec<String>, ctx: Ctx| -> Vec<String> {
            let mut keep = Vec::new();
            for e in list {
                if keep.contains(&e) {
                    continue;
                }
                oh_verif_rt::reset_work_budget();
                let mut verdict: Option<String> = None;
                if opening_hours::OpeningHours::parse(&e).is_err() {
                    verdict = Some("does not parse".into());
                } else {
                    // every instant of the pool: an expression must be affordable wherever it may be evaluated
                    // (e.g. `2020-2030/2 ...` is cheap in 2024 and scans to year 9999 from 2040)
                    for t in insts.iter() {
                        oh_verif_rt::reset_work_budget();
                        let r = eval::eval(&Op::Iter { e: e.clone(), c: ctx.clone(), t: *t, n: 12 }, None, None);
                        let r2 = eval::eval(&Op::StateNext { e: e.clone(), c: ctx.clone(), t: *t }, None, None);
                        if r.contains("work budget exceeded") || r2.contains("work budget exceeded") {
                            verdict = Some(format!("sequential evaluation needs more than {MAX_SCHEDULE_CALLS} schedule_at calls"));
                            break;
                        }
                        if r.starts_with("PANIC") || r2.starts_with("PANIC") {
                            verdict = Some(format!("sequential evaluation panics: {}", if r.starts_with("PANIC") { &r } else { &r2 }));
                            break;
                        }
                    }
                }
                match verdict {
                    None => keep.push(e),
                    Some(v) => excluded.push((e, v)),
                }
            }
            keep
        };
        let mut all: Vec<String> = HAND_WRITTEN.iter().map(|s| s.to_string()).collect();
        all.extend(sample.lines().map(|l| l.trim().to_string()).filter(|l| !l.is_empty()));
        let exprs = screen(all, Ctx::Default);
        let holiday_exprs = screen(HOLIDAY_EXPRS.iter().map(|s| s.to_string()).collect(), Ctx::Holidays("FR".into()));
        let easter_exprs = screen(EASTER_EXPRS.iter().map(|s| s.to_string()).collect(), Ctx::Default);
        let mut countries: Vec<String> = Country::ALL.iter().map(|c| c.iso_code().to_string()).collect();
        countries.sort();
        // spacing variants: explicit confusable pairs + for every pool expression its comma-spacing toggled
        // and its space-free form, kept when they parse, stay within the work budget and differ as strings
        let mut cands: Vec<(String, String)> = CONFUSABLE.iter().map(|(a, b)| (a.to_string(), b.to_string())).collect();
        for e in exprs.iter().chain(holiday_exprs.iter()) {
            let strip_outside_quotes = |s: &str, f: &dyn Fn(&str) -> String| -> String {
                s.split('"').enumerate().map(|(i, part)| if i % 2 == 0 { f(part) } else { part.to_string() }).collect::<Vec<_>>().join("\"")
            };
            let toggled = if e.contains(", ") { strip_outside_quotes(e, &|p| p.replace(", ", ",")) } else { strip_outside_quotes(e, &|p| p.replace(',', ", ")) };
            let spaceless = strip_outside_quotes(e, &|p| p.replace(' ', ""));
            for v in [toggled, spaceless] {
                if &v != e {
                    cands.push((e.clone(), v));
                }
            }
        }
        let mut spacing_variants = Vec::new();
        for (a, b) in cands {
            let ok = screen(vec![a.clone(), b.clone()], Ctx::Default);
            if ok.len() == 2 {
                spacing_variants.push((a, b));
            }
        }
        // dense expressions, by the deterministic probe counter
        let mut dense_exprs = Vec::new();
        for e in &exprs {
            let before = oh_verif_rt::probe_hits("schedule_at:entry");
            oh_verif_rt::reset_work_budget();
            let r = eval::eval(&Op::Iter { e: e.clone(), c: Ctx::Default, t: insts[0], n: 12 }, None, None);
            let calls = oh_verif_rt::probe_hits("schedule_at:entry") - before;
            if !r.starts_with("PANIC") && calls <= 40 {
                dense_exprs.push(e.clone());
            }
        }
        let mut lossy_normal_exprs = Vec::new();
        for e in &dense_exprs {
            let norm = eval::eval(&Op::Normalize(e.clone()), None, None);
            if norm == "Err" || &norm == e {
                continue;
            }
            oh_verif_rt::reset_work_budget();
            let a = eval::eval(&Op::Iter { e: e.clone(), c: Ctx::Default, t: insts[0], n: 40 }, None, None);
            oh_verif_rt::reset_work_budget();
            let b = eval::eval(&Op::Iter { e: norm, c: Ctx::Default, t: insts[0], n: 40 }, None, None);
            if a != b && !a.starts_with("PANIC") && !b.contains("work budget exceeded") {
                lossy_normal_exprs.push(e.clone());
            }
        }
        // swarm, sizes: long expressions -- seeded concatenations of 6..40 dense pool expressions
        let mut long_cands = Vec::new();
        {
            let mut rng = Rng::derive(0x10e6, 7, 0);
            let parts: Vec<&String> = dense_exprs.iter().filter(|e| !e.contains("||") && !e.contains("20") && !e.contains("19") && e.len() < 120).collect();
            if !parts.is_empty() {
                for k in [6usize, 8, 12, 12, 16, 24, 40] {
                    let v: Vec<String> = (0..k).map(|_| (*rng.pick(&parts)).clone()).collect();
                    long_cands.push(v.join(" ; "));
                }
            }
        }
        let long_exprs = screen(long_cands, Ctx::Default);
        let panicking_exprs: Vec<String> = excluded.iter().filter(|(_, why)| why.starts_with("sequential evaluation panics")).map(|(e, _)| e.clone()).collect();
        Screened { exprs, holiday_exprs, easter_exprs, excluded, panicking_exprs, dense_exprs, countries, border_pairs: find_border_pairs(), spacing_variants, lossy_normal_exprs, long_exprs }
    }

    pub fn from_screened(s: Screened) -> Pools {
        Pools {
            exprs: s.exprs,
            holiday_exprs: s.holiday_exprs,
            easter_exprs: s.easter_exprs,
            sun_exprs: SUN_EXPRS.iter().map(|s| s.to_string()).collect(),
            panicking_exprs: s.panicking_exprs,
            dense_exprs: s.dense_exprs,
            invalid_exprs: INVALID.iter().map(|s| s.to_string()).collect(),
            excluded: s.excluded,
            countries: s.countries,
            zones: ZONES.to_vec(),
            coords: COORDS.to_vec(),
            sun_coords: COORDS.iter().copied().filter(|c| c.0.abs() <= 600_000).collect(),
            border_pairs: s.border_pairs,
            spacing_variants: s.spacing_variants,
            lossy_normal_exprs: s.lossy_normal_exprs,
            long_exprs: s.long_exprs,
            instants: instants(),
            data: DataFiles::load(),
        }
    }

    /// a country code; one time in three one of the few countries that have school holidays listed
    pub fn pick_country(&self, rng: &mut Rng) -> String {
        let school: Vec<&String> = self.data.school.keys().collect();
        if !school.is_empty() && rng.chance(1, 3) {
            (*rng.pick(&school)).clone()
        } else {
            rng.pick(&self.countries).clone()
        }
    }

    pub fn pick_holiday_probe(&self, rng: &mut Rng) -> (String, (i32, u32, u32), bool) {
        let cc = self.pick_country(rng);
        self.pick_holiday_probe_for(rng, &cc)
    }

    /// a listed date, one of its neighbours, or an arbitrary date of 1990..2085
    pub fn pick_holiday_probe_for(&self, rng: &mut Rng, cc: &str) -> (String, (i32, u32, u32), bool) {
        let school = self.data.school.contains_key(cc) && rng.chance(1, 2) || rng.chance(1, 8);
        let set = if school { self.data.school.get(cc) } else { self.data.public.get(cc) };
        let listed: Option<NaiveDate> = set.filter(|s| !s.is_empty()).map(|s| *s.iter().nth(rng.usize_below(s.len())).unwrap());
        let d = match (rng.below(4), listed) {
            (0 | 1, Some(d)) => d,
            (2, Some(d)) => {
                if rng.chance(1, 2) {
                    d.succ_opt().unwrap_or(d)
                } else {
                    d.pred_opt().unwrap_or(d)
                }
            }
            _ => NaiveDate::from_ymd_opt(1990 + rng.below(96) as i32, rng.range(1, 12) as u32, rng.range(1, 28) as u32).unwrap(),
        };
        (cc.to_string(), (d.year(), d.month(), d.day()), school)
    }
}
