//! Explicit, replayable description of one simulated walk across a clock jump.

use serde::{Deserialize, Serialize};

#[derive(Serialize, Deserialize, Clone, Debug, PartialEq, Eq)]
pub enum Step {
    /// move the simulated clock to this absolute instant (never backwards: smaller values are ignored)
    Goto { utc: i64, nanos: u32 },
    /// advance by this many seconds
    Advance(i64),
    /// jump to the instant the context-zone evaluation returned as next_change (if any)
    FollowNextChange,
    /// an instant strictly inside (now, next_change): now + (next-now) * permille / 1000
    Between(u32),
    /// evaluate state / next_change / the interval stream over [now, now + window) (at most `take` intervals)
    Observe { window: i64, take: u32 },
    /// call the public mapping `TzLocation::datetime(naive)` directly for this wall-clock time (seconds as if UTC,
    /// plus a sub-second part): the result must be the later instant when the time is repeated, the instant that
    /// closes the gap (exactly, no sub-second part) when it does not exist
    Map { local: i64, nanos: u32 },
    /// a sun event of the day `day` days after the day of the injected jump (of `now` in a run without jump), at
    /// coordinates (lat, lon) in 1e-4 degrees: its wall-clock time in the context zone (`Localize::event_time`
    /// of a context with coordinates) must be the zone's wall clock at the event's absolute instant
    /// (`Coordinates::event_time`, which knows no zone), whatever clock jump that day has; and `sunrise-sunset`
    /// evaluated next to that instant must change state there. event: 0 dawn, 1 sunrise, 2 sunset, 3 dusk
    Sun { day: i32, event: u8, lat: i32, lon: i32 },
    /// like Observe, with the window ending `delta` seconds after (before, if negative) the injected jump
    /// (falls back to a 60 s window when that end is not after `now` or the run has no jump)
    ObserveUntilJump { delta: i64, take: u32 },
}

#[derive(Serialize, Deserialize, Clone, Debug, PartialEq, Eq)]
pub struct Scenario {
    /// context zone: IANA name, "utc" or "fixed:<seconds east>"
    pub zone: String,
    /// zone the input instants are expressed in (same kinds)
    pub observer: String,
    pub expr: String,
    /// public holidays attached to the context, as (y, m, d)
    pub holidays: Vec<(i32, u32, u32)>,
    /// the injected clock jump this walk is placed around (informational; the
    /// jump itself comes from the zone's real offset function)
    pub jump: Option<(i64, i32, i32)>,
    pub start_utc: i64,
    pub steps: Vec<Step>,
    /// coordinates attached to the zone-aware context (only generated for expressions without sun events, for
    /// which they must not matter)
    #[serde(default)]
    pub coords: Option<(i32, i32)>,
    /// `approx_bound_interval_size` in days, applied to BOTH the zone-aware and the location-free context
    #[serde(default)]
    pub bound_days: Option<u32>,
}
