//! Jump tables of the IANA zones, reconstructed from the UTC -> offset
//! direction only (`TimeZone::offset_from_utc_datetime`, the trusted base), and
//! the independent wall-clock -> instant oracle `map_local` built on them.
//! Nothing in here calls `from_local_datetime`.

use std::sync::OnceLock;

use chrono::{DateTime, FixedOffset, NaiveDate, NaiveDateTime, Offset, TimeZone, Utc};
use chrono_tz::Tz;

/// A discontinuity of a zone's offset function: at UTC instant `at` (seconds
/// since the epoch) the offset changes from `before` to `after` (seconds east).
#[derive(Clone, Copy, Debug, PartialEq, Eq)]
pub struct Jump {
    pub at: i64,
    pub before: i32,
    pub after: i32,
}

impl Jump {
    /// > 0: gap (wall clock skips forward), < 0: fold (wall clock repeats)
    pub fn size(&self) -> i32 {
        self.after - self.before
    }
    /// wall-clock window that is skipped (gap) or repeated (fold), in local seconds
    pub fn window(&self) -> (i64, i64) {
        let a = self.at + self.before as i64;
        let b = self.at + self.after as i64;
        (a.min(b), a.max(b))
    }
    pub fn kind(&self) -> JumpKind {
        let s = self.size();
        let a = s.unsigned_abs();
        let sign = if s > 0 { 0 } else { 1 };
        let class = if a % 60 != 0 {
            4
        } else if a >= 20 * 3600 {
            3
        } else if a == 3600 {
            0
        } else if a == 1800 {
            1
        } else {
            2
        };
        JumpKind(class * 2 + sign)
    }
}

/// 0/1: 1h gap/fold, 2/3: 30min, 4/5: other minute-aligned, 6/7: (near) whole-day, 8/9: sub-minute component
#[derive(Clone, Copy, Debug, PartialEq, Eq, PartialOrd, Ord, Hash)]
pub struct JumpKind(pub u8);

pub const JUMP_KIND_NAMES: [&str; 10] = [
    "gap_1h",
    "fold_1h",
    "gap_30min",
    "fold_30min",
    "gap_other_minutes",
    "fold_other_minutes",
    "gap_day_line",
    "fold_day_line",
    "gap_sub_minute",
    "fold_sub_minute",
];

pub fn secs(dt: NaiveDateTime) -> i64 {
    dt.and_utc().timestamp()
}

pub fn naive_of(secs: i64) -> NaiveDateTime {
    DateTime::<Utc>::from_timestamp(secs, 0).expect("timestamp in range").naive_utc()
}

/// Offset function of an arbitrary chrono zone, UTC direction only.
pub fn offset_at<Z: TimeZone>(tz: &Z, utc_secs: i64) -> i32 {
    tz.offset_from_utc_datetime(&naive_of(utc_secs)).fix().local_minus_utc()
}

/// All jumps of `off` in (lo, hi], assuming no offset is in force for less than `step` seconds
/// unless it differs from both neighbours (then bisection still finds both edges).
pub fn find_jumps(off: &dyn Fn(i64) -> i32, lo: i64, hi: i64, step: i64) -> Vec<Jump> {
    let mut out = Vec::new();
    let mut a = lo;
    let mut oa = off(a);
    while a < hi {
        let b = (a + step).min(hi);
        let ob = off(b);
        if ob != oa {
            // bisect every change inside (a, b]
            let mut left = a;
            let mut oleft = oa;
            while oleft != ob {
                // smallest t in (left, b] with off(t) != oleft
                let (mut l, mut r) = (left, b);
                // invariant: off(l) == oleft, off(r) != oleft  (r = b works since ob != oleft)
                if off(r) == oleft {
                    break;
                }
                while r - l > 1 {
                    let m = l + (r - l) / 2;
                    if off(m) == oleft {
                        l = m;
                    } else {
                        r = m;
                    }
                }
                let onew = off(r);
                out.push(Jump { at: r, before: oleft, after: onew });
                left = r;
                oleft = onew;
            }
        }
        a = b;
        oa = ob;
    }
    out
}

pub struct ZoneTable {
    pub tz: Tz,
    pub jumps: Vec<Jump>,
}

pub const TABLE_FROM: (i32, u32, u32) = (1900, 1, 3);
pub const TABLE_TO: (i32, u32, u32) = (2100, 1, 1);

pub fn table_range() -> (i64, i64) {
    let lo = NaiveDate::from_ymd_opt(TABLE_FROM.0, TABLE_FROM.1, TABLE_FROM.2).unwrap().and_hms_opt(0, 0, 0).unwrap();
    let hi = NaiveDate::from_ymd_opt(TABLE_TO.0, TABLE_TO.1, TABLE_TO.2).unwrap().and_hms_opt(0, 0, 0).unwrap();
    (secs(lo), secs(hi))
}

fn build_table(tz: Tz) -> ZoneTable {
    let (lo, hi) = table_range();
    let off = |t: i64| offset_at(&tz, t);
    ZoneTable { tz, jumps: find_jumps(&off, lo, hi, 6 * 3600) }
}

static TABLES: OnceLock<Vec<ZoneTable>> = OnceLock::new();

/// Jump tables of every `chrono_tz::TZ_VARIANTS` zone, built once (in parallel).
pub fn tables() -> &'static [ZoneTable] {
    TABLES.get_or_init(|| {
        let zones: Vec<Tz> = chrono_tz::TZ_VARIANTS.to_vec();
        let n = simcore::workers().max(1);
        let mut out: Vec<Option<ZoneTable>> = (0..zones.len()).map(|_| None).collect();
        let chunks: Vec<Vec<(usize, Tz)>> = (0..n).map(|w| zones.iter().copied().enumerate().filter(|(i, _)| i % n == w).collect()).collect();
        let results: Vec<Vec<(usize, ZoneTable)>> = std::thread::scope(|s| {
            let hs: Vec<_> = chunks.into_iter().map(|c| s.spawn(move || c.into_iter().map(|(i, tz)| (i, build_table(tz))).collect::<Vec<_>>())).collect();
            hs.into_iter().map(|h| h.join().unwrap()).collect()
        });
        for r in results {
            for (i, t) in r {
                out[i] = Some(t);
            }
        }
        out.into_iter().map(|t| t.unwrap()).collect()
    })
}

pub fn table_of(tz: Tz) -> &'static ZoneTable {
    let i = chrono_tz::TZ_VARIANTS.iter().position(|z| *z == tz).expect("zone in TZ_VARIANTS");
    &tables()[i]
}

/// A context zone as the scenario names it.
#[derive(Clone, Debug)]
pub enum ZoneSpec {
    Iana(Tz),
    Fixed(FixedOffset),
    Utc,
}

impl ZoneSpec {
    pub fn parse(s: &str) -> Option<ZoneSpec> {
        if s == "utc" {
            return Some(ZoneSpec::Utc);
        }
        if let Some(rest) = s.strip_prefix("fixed:") {
            let secs: i32 = rest.parse().ok()?;
            return FixedOffset::east_opt(secs).map(ZoneSpec::Fixed);
        }
        s.parse::<Tz>().ok().map(ZoneSpec::Iana)
    }
    pub fn offset(&self, utc_secs: i64) -> i32 {
        match self {
            ZoneSpec::Iana(tz) => offset_at(tz, utc_secs),
            ZoneSpec::Fixed(f) => f.local_minus_utc(),
            ZoneSpec::Utc => 0,
        }
    }
    /// jumps with `at` in [lo, hi]
    pub fn jumps_between(&self, lo: i64, hi: i64) -> Vec<Jump> {
        match self {
            ZoneSpec::Iana(tz) => {
                let (tlo, thi) = table_range();
                if lo >= tlo && hi <= thi {
                    let t = table_of(*tz);
                    let start = t.jumps.partition_point(|j| j.at < lo);
                    t.jumps[start..].iter().take_while(|j| j.at <= hi).copied().collect()
                } else {
                    let off = |t: i64| offset_at(tz, t);
                    find_jumps(&off, lo - 1, hi, 3600)
                }
            }
            _ => vec![],
        }
    }

    /// The independent oracle: the context-zone instant (UTC seconds) for the
    /// wall-clock time `local` (seconds, as if UTC): the later one when
    /// ambiguous, the instant that closes the gap when it does not exist.
    pub fn map_local(&self, local: i64) -> i64 {
        const PAD: i64 = 2 * 86400 + 3600;
        let lo = local - PAD;
        let hi = local + PAD;
        let jumps = self.jumps_between(lo, hi);
        // pieces: [start, end) with constant offset
        let mut best: Option<i64> = None;
        let mut piece_start = lo;
        let mut piece_off = self.offset(lo);
        let mut consider = |start: i64, end: i64, off: i32, first: bool, last: bool| {
            let u = local - off as i64;
            if (first || u >= start) && (last || u < end) {
                best = Some(best.map_or(u, |b: i64| b.max(u)));
            }
        };
        for (i, j) in jumps.iter().enumerate() {
            consider(piece_start, j.at, piece_off, i == 0, false);
            piece_start = j.at;
            piece_off = j.after;
        }
        consider(piece_start, hi, piece_off, jumps.is_empty(), true);
        if let Some(u) = best {
            return u;
        }
        // in a gap: the jump whose skipped window contains `local`
        for j in &jumps {
            if j.size() > 0 {
                let (a, b) = j.window();
                if local >= a && local < b {
                    return j.at;
                }
            }
        }
        // unreachable for well-formed offset functions; make it loud
        panic!("oracle: wall-clock second {local} neither exists nor lies in a gap");
    }
}
