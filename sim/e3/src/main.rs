//! Engine E3 — clock-jump simulator through the zone seam (property C09).
//!
//! Real code: `opening-hours` (all of it, guard off), `chrono`, `chrono-tz`.
//! Simulated: the absolute clock (the simulator chooses every instant and
//! advances it event by event) and the observer's zone. Seam: the existing
//! `TzLocation<Tz: TimeZone>` type parameter; no hook.
//!
//! usage: e3 <quick|thorough|smoke> | e3 replay <file> | e3 fingerprint <runs> | e3 jumps

mod exec;
mod gen;
mod scenario;
mod shrink;
mod zones;

use std::time::Instant;

use simcore::{json, Agg, KnownFindings, Report, Rng, Violation};

use crate::exec::{execute, RunOut};
use crate::scenario::Scenario;

const ENGINE_TAG: u64 = 0xE3;
const SWEEP_TAG: u64 = 0xE35;
const PROPERTY: &str = "C09";
const BATTERY: u64 = 24;

fn record(idx: u64, sc: &Scenario, out: RunOut, agg: &mut Agg, known: &KnownFindings) {
    if let Some(e) = &out.harness_error {
        eprintln!("harness error in run {idx}: {e}\nscenario: {}", serde_json::to_string(sc).unwrap());
        std::process::exit(2);
    }
    let nontrivial = out.jump_hits > 0;
    agg.note_run(idx, out.fp, nontrivial);
    agg.faults.merge(&out.faults);
    agg.probes.merge(&out.probes);
    agg.sim.merge(&out.sim);
    agg.states.insert(out.state_sig);
    if let Some((_, b, a)) = sc.jump {
        let k = zones::Jump { at: 0, before: b, after: a }.kind();
        agg.faults.hit(["jump_gap_1h", "jump_fold_1h", "jump_gap_30min", "jump_fold_30min", "jump_gap_other_minutes", "jump_fold_other_minutes", "jump_gap_day_line", "jump_fold_day_line", "jump_gap_sub_minute", "jump_fold_sub_minute"][k.0 as usize]);
    }
    if idx < 2 || (nontrivial && idx < 64) {
        agg.sample(idx, || json!({"scenario": sc, "fingerprint": format!("{:016x}", out.fp), "observations_inside_jump_window": out.jump_hits}), 4);
    }
    if let Some(fail) = out.fail {
        // The batch executes many walks per worker thread; whatever a change makes the system under test keep in
        // thread-locals or statics survives from one walk to the next there. A replay file must stand on its own:
        // the walk is first re-executed on a thread of its own, then minimised (every candidate on a fresh thread),
        // and the result is confirmed in a fresh process; otherwise the walk is reported as generated, with a note.
        let mut note = None;
        simcore::post_processing_begins(15, known.matches(PROPERTY, &fail.class).is_none());
        let sc1 = sc.clone();
        let alone = simcore::with_timeout(move || execute(&sc1)).and_then(|o| o.fail).filter(|f| f.class == fail.class);
        let (mut min_sc, mut min_fail) = match &alone {
            Some(f) => shrink::minimise(sc, f),
            None => (sc.clone(), fail.clone()),
        };
        let engine = "e3";
        if alone.is_none() || simcore::reproduces_in_fresh_process(PROPERTY, &min_fail.class, &json!({"engine": engine, "minimised": min_sc}), idx) == Some(false) {
            (min_sc, min_fail) = (sc.clone(), fail.clone());
            if alone.is_none() || simcore::reproduces_in_fresh_process(PROPERTY, &min_fail.class, &json!({"engine": engine, "minimised": min_sc}), idx) == Some(false) {
                note = Some("not reproduced by this walk alone on a fresh thread / in a fresh process: the violation depends on state the system under test kept from earlier walks of the batch (thread-local or process-wide); re-run the batch with the same VERIF_SEED to see it again");
            }
        }
        let sig = min_fail.class.clone();
        if let Some(what) = known.matches(PROPERTY, &sig) {
            let e = agg.known.entry(sig).or_insert((0, what.to_string()));
            e.0 += 1;
        } else {
            agg.violations.insert(
                idx,
                Violation {
                    run: idx,
                    class: min_fail.class.clone(),
                    detail: format!("step {}: {}", min_fail.step, min_fail.detail),
                    scenario: json!({"engine": "e3", "minimised": min_sc, "original_steps": sc.steps.len(), "minimised_steps": min_sc.steps.len(), "note": note}),
                },
            );
        }
    }
}

fn main() {
    let args: Vec<String> = std::env::args().collect();
    let cmd = args.get(1).map(|s| s.as_str()).unwrap_or("quick");
    simcore::silence_panics();
    match cmd {
        "replay" => {
            let path = args.get(2).unwrap_or_else(|| {
                eprintln!("usage: e3 replay <file>");
                std::process::exit(2)
            });
            std::process::exit(replay(path));
        }
        "slow" => slow_probe(args.get(2).and_then(|s| s.parse().ok()).unwrap_or(300)),
        "jumps" => {
            let idx = gen::index();
            let total: usize = idx.iter().map(|v| v.len()).sum();
            println!("zones={} jumps={}", zones::tables().len(), total);
            for (k, v) in idx.iter().enumerate() {
                println!("  {:<22} {}", zones::JUMP_KIND_NAMES[k], v.len());
            }
        }
        "fingerprint" => {
            let runs: u64 = args.get(2).and_then(|s| s.parse().ok()).unwrap_or(256);
            let seed = simcore::verif_seed();
            for idx in 0..runs {
                let mut rng = Rng::derive(seed, ENGINE_TAG, idx);
                let sc = gen::generate(&mut rng, "quick");
                let out = execute(&sc);
                println!("{idx} {:016x} {}", out.fp, out.fail.as_ref().map(|f| f.class.as_str()).unwrap_or("ok"));
            }
        }
        _ => {
            let tier = simcore::tier(Some(cmd));
            std::process::exit(batch(&tier));
        }
    }
}

fn batch(tier: &str) -> i32 {
    let seed = simcore::verif_seed();
    let runs = simcore::env_u64(
        "VERIF_RUNS",
        match tier {
            "thorough" => 2_000_000,
            "smoke" => 5_000,
            _ => 150_000,
        },
    );
    let known = KnownFindings::load();
    let t0 = Instant::now();
    // build the jump tables first (deterministic, independent of the seed)
    let idx = gen::index();
    let n_jumps: u64 = idx.iter().map(|v| v.len() as u64).sum();
    let mut agg = simcore::par_batch_watched(
        runs,
        simcore::workers(),
        4,
        |idx, agg| {
            let mut rng = Rng::derive(seed, ENGINE_TAG, idx);
            let sc = gen::generate(&mut rng, tier);
            let out = execute(&sc);
            record(idx, &sc, out, agg, &known);
        },
        |idx| {
            let mut rng = Rng::derive(seed, ENGINE_TAG, idx);
            let sc = gen::generate(&mut rng, tier);
            simcore::report_hang(PROPERTY, seed, idx, json!({"engine": "e3", "minimised": sc}))
        },
    );
    // thorough: exhaustive sweep of the jump table, BATTERY seeded walks per jump
    let mut sweep_runs = 0u64;
    let mut exhaustive = false;
    if tier == "thorough" && agg.violations.is_empty() {
        let flat: Vec<(u32, u32)> = zones::tables().iter().enumerate().flat_map(|(zi, t)| (0..t.jumps.len()).map(move |ji| (zi as u32, ji as u32))).collect();
        let total = flat.len() as u64 * BATTERY;
        let sweep_sc = |i: u64| {
            let (zi, ji) = flat[(i / BATTERY) as usize];
            let t = &zones::tables()[zi as usize];
            let mut rng = Rng::derive(seed, SWEEP_TAG, i);
            let mut sc = gen::scenario_around(&mut rng, t.tz, t.jumps[ji as usize]);
            gen::decorate(&mut rng, &mut sc);
            sc
        };
        let sweep = simcore::par_batch_watched(
            total,
            simcore::workers(),
            0,
            |i, agg| {
                let sc = sweep_sc(i);
                let out = execute(&sc);
                record(runs + i, &sc, out, agg, &known);
            },
            |i| simcore::report_hang(PROPERTY, seed, runs + i, json!({"engine": "e3", "minimised": sweep_sc(i)})),
        );
        sweep_runs = sweep.runs;
        exhaustive = sweep.violations.is_empty() && sweep.runs == total;
        agg.merge(sweep, 4);
    }
    agg.recheck_determinism(|idx| {
        let mut rng = Rng::derive(seed, ENGINE_TAG, idx);
        execute(&gen::generate(&mut rng, tier)).fp
    });
    agg.probes.declare(exec::PROBES);
    agg.faults.declare(&["observation_inside_jump_window", "boundary_in_skipped_wall_clock", "boundary_in_repeated_wall_clock"]);
    let wall = t0.elapsed().as_secs_f64();
    let rep = Report {
        property: PROPERTY,
        tier,
        seed,
        level: "exploration",
        rule: "Each run is a walk of a simulated client across one clock jump of the context zone (a real IANA discontinuity chosen by kind so rare kinds are sampled as often as 1 h DST; 20% of runs are jump-free: quiet IANA instants, fixed offsets / UTC, and walks around the 1900 and 9999 wall-clock bounds). The expression is generated relative to the jump so that schedule boundaries fall inside the skipped or repeated wall-clock window; the clock starts seconds to a day before the jump and advances event by event (to the returned next_change, to a seeded instant before it, to just before/at/after the jump). At every visited instant state, next_change and the interval stream of the zone-aware evaluation are compared with the location-free evaluation at the wall-clock time plus an independent wall-clock->instant oracle. A run is non-trivial iff at least one observation was made in the last minute before a jump, at it, inside a fold, with a window straddling the jump or shorter than the fold, or a schedule boundary fell inside the skipped/repeated window; distinct = distinct event-log fingerprints among those.".into(),
        components: json!({
            "real": ["opening-hours (parser, evaluator, TzLocation/Localize) as shipped, guard off", "chrono, chrono-tz zone tables (UTC->offset direction is the oracle's trusted base)", "compact-calendar (holiday context)"],
            "stub": ["the absolute clock and the observer zone are chosen by the simulator; no real clock is read"],
        }),
        assumptions: vec![
            "chrono-tz's offset_from_utc_datetime is trusted; the oracle never calls from_local_datetime".into(),
            "jump table reconstructed by 6 h sampling + bisection over 1900-01-03..2100-01-01: an offset in force for less than 6 h and equal on both sides would be missed".into(),
            "only IANA jump shapes are injected; synthetic zones are deliberately not used for verdicts".into(),
            "contexts without coordinates (sun events are the fixed 06/07/19/20 h)".into(),
        ],
        extra: json!({
            "iana_jumps_in_table": n_jumps,
            "zones": zones::tables().len(),
            "jump_table_exhaustively_swept": exhaustive,
            "sweep_walks": sweep_runs,
            "sweep_walks_per_jump": if tier == "thorough" { BATTERY } else { 0 },
            "state_measure": "distinct (jump kind, jump size, set of query positions relative to the jump window, set of boundary positions relative to it, sign of the context offset) tuples",
        }),
        wall_s: wall,
        exhaustive: None,
    };
    simcore::finish(rep, agg)
}

fn replay(path: &str) -> i32 {
    let v = simcore::read_json(std::path::Path::new(path));
    let sc_v = v["scenario"].get("minimised").cloned().unwrap_or_else(|| v["scenario"].clone());
    let sc: Scenario = match serde_json::from_value(sc_v) {
        Ok(s) => s,
        Err(e) => {
            eprintln!("harness error: replay file does not contain an e3 scenario: {e}");
            return 2;
        }
    };
    let want = v["class"].as_str().unwrap_or("");
    let sc2 = sc.clone();
    let Some(out) = simcore::with_timeout(move || execute(&sc2)) else {
        println!("VIOLATION property={PROPERTY} replay={path}");
        println!("  class=hang detail: the replayed run did not return within {} s", simcore::run_timeout().as_secs());
        return 1;
    };
    if let Some(e) = out.harness_error {
        eprintln!("harness error: {e}");
        return 2;
    }
    match out.fail {
        Some(f) => {
            println!("VIOLATION property={PROPERTY} replay={path}");
            println!("  class={} step={} detail: {}", f.class, f.step, f.detail);
            if !want.is_empty() && want != f.class {
                println!("  note: recorded class was {want}");
            }
            1
        }
        None => {
            println!("replay of {path}: no violation (recorded class: {want})");
            0
        }
    }
}

#[allow(dead_code)]
pub fn slow_probe(n: u64) {
    let seed = simcore::verif_seed();
    for idx in 0..n {
        let mut rng = Rng::derive(seed, ENGINE_TAG, idx);
        let sc = gen::generate(&mut rng, "quick");
        let t = Instant::now();
        let out = execute(&sc);
        let el = t.elapsed().as_secs_f64();
        if el > 0.05 {
            println!("{idx} {:.3}s fail={:?} zone={} expr={:?} steps={}", el, out.fail.map(|f| f.class), sc.zone, sc.expr, sc.steps.len());
        }
    }
}
