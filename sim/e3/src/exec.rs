//! Executes a walk: the simulated client moves an absolute clock forward
//! event by event and, at every visited instant, compares the zone-aware
//! evaluation (real code, through the `TzLocation<Tz>` seam) with the
//! location-free evaluation at the wall-clock time plus the independent
//! wall-clock -> instant oracle (invariants I1-I3 of DESIGN.md section 6).

use std::fmt::Debug;
use std::sync::Arc;

use chrono::{DateTime, NaiveDate, NaiveDateTime, TimeDelta, TimeZone, Utc};
use compact_calendar::CompactCalendar;
use opening_hours::localization::TzLocation;
use opening_hours::{Context, ContextHolidays, OpeningHours, RuleKind};
use simcore::{Counters, Fp};

use crate::scenario::{Scenario, Step};
use crate::zones::{secs, Jump, ZoneSpec};

pub const PROBES: &[&str] = &[
    "query_before_jump",
    "query_last_minute_before_fold",
    "query_last_minute_before_gap",
    "query_inside_fold_first_occurrence",
    "query_inside_fold_second_occurrence",
    "query_exactly_at_jump",
    "query_after_jump",
    "query_sub_second",
    "boundary_in_gap_mapped",
    "boundary_in_fold_ambiguous",
    "boundary_in_sub_minute_gap",
    "interval_collapsed_by_gap",
    "window_shorter_than_fold",
    "window_straddles_jump",
    "window_ends_exactly_at_jump",
    "window_zero_length",
    "window_backwards_in_absolute_time_forwards_on_the_wall_clock",
    "open_ended_stream_compared",
    "interior_start_checked_against_day_schedule",
    "observer_zone_jumps_too",
    "context_with_coordinates",
    "context_with_interval_bound",
    "long_stream_observed",
    "direct_mapping_call",
    "direct_mapping_in_gap",
    "query_inside_leap_second",
    "sun_event_mapped",
    "sun_event_on_jump_day",
    "sun_event_after_the_jump_of_its_day",
    "sun_state_checked",
    "next_change_none",
    "next_change_across_jump",
    "observer_zone_differs",
    "observer_offset_negative",
    "quiet_run",
    "fixed_offset_context",
    "range_bound_1900",
    "range_bound_9999",
    "holiday_on_jump_date",
    "expr_unparsable_skipped",
    "stream_intervals_compared",
];

#[derive(Clone, Debug)]
pub struct Fail {
    pub class: String,
    pub step: usize,
    pub detail: String,
}

pub struct RunOut {
    pub fp: u64,
    pub fail: Option<Fail>,
    pub probes: Counters,
    pub faults: Counters,
    pub sim: Counters,
    pub state_sig: u64,
    /// number of observations made while a jump lay inside the observed window,
    /// inside the last minute before it, or inside its repeated/skipped wall-clock window
    pub jump_hits: u64,
    pub harness_error: Option<String>,
}



/// total: a leap-second sub-second part (>= 1e9) is only representable in second 59; elsewhere it is folded back
fn ndt(secs_: i64, nanos: u32) -> NaiveDateTime {
    DateTime::<Utc>::from_timestamp(secs_, nanos).or_else(|| DateTime::<Utc>::from_timestamp(secs_, nanos % 1_000_000_000)).expect("instant in range").naive_utc()
}

fn kind_code(k: RuleKind) -> u8 {
    match k {
        RuleKind::Open => 1,
        RuleKind::Closed => 2,
        RuleKind::Unknown => 3,
    }
}

struct Walk<'a> {
    spec: &'a ZoneSpec,
    jump: Option<Jump>,
    fp: Fp,
    probes: Counters,
    faults: Counters,
    sim: Counters,
    pos_bits: u32,
    bnd_bits: u32,
    jump_hits: u64,
}

pub fn execute(sc: &Scenario) -> RunOut {
    let mut out = RunOut { fp: 0, fail: None, probes: Counters::default(), faults: Counters::default(), sim: Counters::default(), state_sig: 0, jump_hits: 0, harness_error: None };
    let (Some(zone), Some(obs)) = (ZoneSpec::parse(&sc.zone), ZoneSpec::parse(&sc.observer)) else {
        out.harness_error = Some(format!("unknown zone {:?} / {:?}", sc.zone, sc.observer));
        return out;
    };
    match (&zone, &obs) {
        (ZoneSpec::Iana(z), ZoneSpec::Iana(o)) => run(sc, *z, *o, &zone, out),
        (ZoneSpec::Fixed(z), ZoneSpec::Fixed(o)) => run(sc, *z, *o, &zone, out),
        (ZoneSpec::Utc, ZoneSpec::Utc) => run(sc, Utc, Utc, &zone, out),
        _ => {
            out.harness_error = Some("context and observer zone must be of the same chrono type".into());
            out
        }
    }
}

fn run<Tz>(sc: &Scenario, ctx_tz: Tz, obs_tz: Tz, spec: &ZoneSpec, mut out: RunOut) -> RunOut
where
    Tz: TimeZone + Send + Sync + PartialEq + Debug,
    Tz::Offset: Send + Sync,
{
    let base = match OpeningHours::parse(&sc.expr) {
        Ok(b) => b,
        Err(_) => {
            out.probes.hit("expr_unparsable_skipped");
            return out;
        }
    };
    let mut cal = CompactCalendar::default();
    for (y, m, d) in &sc.holidays {
        if let Some(d) = NaiveDate::from_ymd_opt(*y, *m, *d) {
            cal.insert(d);
        }
    }
    let holidays = ContextHolidays::new(Arc::new(cal), Arc::default());
    let mut loc = TzLocation::new(ctx_tz.clone());
    if let Some((lat, lon)) = sc.coords {
        if let Some(c) = opening_hours::localization::Coordinates::new(lat as f64 / 1e4, lon as f64 / 1e4) {
            loc = loc.with_coords(c);
            out.probes.hit("context_with_coordinates");
        }
    }
    let mut ctx_n = Context::default().with_holidays(holidays.clone());
    let mut ctx_z = Context::default().with_holidays(holidays).with_locale(loc);
    if let Some(d) = sc.bound_days {
        ctx_n = ctx_n.approx_bound_interval_size(TimeDelta::days(d as i64));
        ctx_z = ctx_z.approx_bound_interval_size(TimeDelta::days(d as i64));
        out.probes.hit("context_with_interval_bound");
    }
    let oh_n = base.clone().with_context(ctx_n);
    let oh_z = base.with_context(ctx_z);

    let mut w = Walk {
        spec,
        jump: sc.jump.map(|(at, before, after)| Jump { at, before, after }),
        fp: Fp::default(),
        probes: Counters::default(),
        faults: Counters::default(),
        sim: Counters::default(),
        pos_bits: 0,
        bnd_bits: 0,
        jump_hits: 0,
    };
    if w.jump.is_none() {
        w.probes.hit("quiet_run");
    }
    if matches!(spec, ZoneSpec::Fixed(_) | ZoneSpec::Utc) {
        w.probes.hit("fixed_offset_context");
    }
    if ctx_tz != obs_tz {
        w.probes.hit("observer_zone_differs");
        if let (Some(j), Some(o)) = (&w.jump, ZoneSpec::parse(&sc.observer)) {
            if !o.jumps_between(j.at - 7200, j.at + 7200).is_empty() {
                w.probes.hit("observer_zone_jumps_too");
            }
        }
    }
    if let Some(j) = &w.jump {
        let (a, _) = j.window();
        let d = ndt(a, 0).date();
        if sc.holidays.iter().any(|(y, m, dd)| NaiveDate::from_ymd_opt(*y, *m, *dd) == Some(d)) {
            w.probes.hit("holiday_on_jump_date");
        }
    }

    let mut now = (sc.start_utc, 0u32);
    let mut last_next: Option<i64> = None;
    let start = now.0;
    for (i, step) in sc.steps.iter().enumerate() {
        match step {
            Step::Goto { utc, nanos } => {
                if (*utc, *nanos) > now {
                    now = (*utc, *nanos);
                }
            }
            Step::Advance(s) => {
                now = (now.0 + (*s).max(0), now.1);
            }
            Step::FollowNextChange => {
                if let Some(n) = last_next {
                    if n > now.0 {
                        now = (n, 0);
                    }
                }
            }
            Step::Between(pm) => {
                if let Some(n) = last_next {
                    if n > now.0 + 1 {
                        let d = ((n - now.0) as i128 * (*pm).min(999) as i128 / 1000) as i64;
                        now = (now.0 + d.max(1), 0);
                    }
                }
            }
            Step::Map { local, nanos } => {
                use opening_hours::localization::Localize;
                let naive = ndt(*local, *nanos);
                let r = simcore::catch(|| TzLocation::new(ctx_tz.clone()).datetime(naive));
                w.probes.hit("direct_mapping_call");
                let want_secs = spec.map_local(*local);
                // does the wall-clock second exist? (then the sub-second part is kept; in a gap the answer is the
                // first valid instant itself)
                let exists = want_secs + spec.offset(want_secs) as i64 == *local;
                let want = (want_secs, if exists { *nanos } else { 0 });
                if !exists {
                    w.probes.hit("direct_mapping_in_gap");
                }
                w.fp.i64(*local);
                match r {
                    Err(msg) if msg.starts_with("oracle:") => {
                        out.harness_error = Some(msg);
                        break;
                    }
                    Err(msg) => {
                        out.fail = Some(Fail { class: "panic".into(), step: i, detail: format!("TzLocation::datetime({naive}) panicked: {msg}") });
                        break;
                    }
                    Ok(dt) => {
                        let got = (dt.timestamp(), dt.timestamp_subsec_nanos());
                        w.fp.i64(got.0);
                        if got != want || dt.timezone() != ctx_tz {
                            w.fp.str("mapping_mismatch");
                            out.fail = Some(Fail {
                                class: "mapping_mismatch".into(),
                                step: i,
                                detail: format!("TzLocation::datetime({naive}) = utc {} (+{} ns), expected utc {} (+{} ns): {}", ndt(got.0, 0), got.1, ndt(want.0, 0), want.1, if exists { "the later instant with that wall-clock time" } else { "the first valid instant after the skipped time" }),
                            });
                            break;
                        }
                    }
                }
            }
            Step::Sun { day, event, lat, lon } => {
                let r = simcore::catch(|| sun(&mut w, &ctx_tz, now.0, *day, *event, *lat, *lon));
                match r {
                    Ok(Ok(())) => {}
                    Err(msg) if msg.starts_with("oracle:") => {
                        out.harness_error = Some(msg);
                        break;
                    }
                    Err(msg) => {
                        out.fail = Some(Fail { class: "panic".into(), step: i, detail: format!("panic in the system under test (sun event, day {day}): {msg}") });
                        break;
                    }
                    Ok(Err((class, detail))) => {
                        w.fp.str(&class);
                        out.fail = Some(Fail { class, step: i, detail });
                        break;
                    }
                }
            }
            Step::Observe { .. } | Step::ObserveUntilJump { .. } => {
                let (window, take) = match step {
                    Step::Observe { window, take } => (*window, *take),
                    Step::ObserveUntilJump { delta, take } => {
                        let end = w.jump.map(|j| j.at + *delta);
                        (end.filter(|e| *e > now.0).map(|e| e - now.0).unwrap_or(60), *take)
                    }
                    _ => unreachable!(),
                };
                let (window, take) = (&window, &take);
                let r = simcore::catch(|| observe(&mut w, &oh_z, &oh_n, &ctx_tz, &obs_tz, now, *window, *take));
                let r = match r {
                    Ok(r) => r,
                    Err(msg) if msg.starts_with("oracle:") => {
                        out.harness_error = Some(msg);
                        break;
                    }
                    Err(msg) => Err(("panic".to_string(), format!("panic in the system under test at utc={} ({}): {msg}", now.0, ndt(now.0, now.1)))),
                };
                match r {
                    Ok(n) => last_next = n,
                    Err((class, detail)) => {
                        w.fp.str(&class);
                        out.fail = Some(Fail { class, step: i, detail });
                        break;
                    }
                }
            }
        }
    }
    w.sim.add("simulated_seconds_walked", (now.0 - start).max(0) as u64);
    let mut sig = Fp::default();
    sig.u64(w.jump.map(|j| j.kind().0 as u64 + 1).unwrap_or(0));
    sig.u64(w.jump.map(|j| j.size().unsigned_abs() as u64).unwrap_or(0));
    sig.u64(w.pos_bits as u64);
    sig.u64(w.bnd_bits as u64);
    sig.u64((spec.offset(start) < 0) as u64);
    out.fp = w.fp.0;
    out.probes.merge(&w.probes);
    out.faults = w.faults;
    out.sim = w.sim;
    out.state_sig = sig.0;
    out.jump_hits = w.jump_hits;
    out
}

#[allow(clippy::too_many_arguments)]
fn observe<Tz>(
    w: &mut Walk,
    oh_z: &OpeningHours<TzLocation<Tz>>,
    oh_n: &OpeningHours,
    ctx_tz: &Tz,
    obs_tz: &Tz,
    now: (i64, u32),
    window: i64,
    take: u32,
) -> Result<Option<i64>, (String, String)>
where
    Tz: TimeZone + Send + Sync + PartialEq + Debug,
    Tz::Offset: Send + Sync,
{
    use chrono::Offset;
    let spec = w.spec;
    let u = now.0;
    let off_u = spec.offset(u);
    // a query inside a leap second needs second 59 both in UTC and on the context zone's wall clock (and, for the
    // window end, one whole number of minutes later); otherwise the sub-second part is an ordinary one
    let now = if now.1 >= 1_000_000_000 && !(u.rem_euclid(60) == 59 && (u + off_u as i64).rem_euclid(60) == 59 && window % 60 == 0 && (u + window + spec.offset(u + window) as i64).rem_euclid(60) == 59) { (now.0, now.1 % 1_000_000_000) } else { now };
    let dt_in: DateTime<Tz> = obs_tz.from_utc_datetime(&ndt(u, now.1));
    let wall = ndt(u + off_u as i64, now.1);
    w.fp.i64(u);
    w.fp.u64(now.1 as u64);
    if now.1 != 0 {
        w.probes.hit("query_sub_second");
    }
    if now.1 >= 1_000_000_000 {
        w.probes.hit("query_inside_leap_second");
    }
    if dt_in.offset().fix().local_minus_utc() < 0 {
        w.probes.hit("observer_offset_negative");
    }
    if wall.date() <= NaiveDate::from_ymd_opt(1900, 1, 2).unwrap() {
        w.probes.hit("range_bound_1900");
    }
    if wall.date() >= NaiveDate::from_ymd_opt(9999, 12, 30).unwrap() {
        w.probes.hit("range_bound_9999");
    }
    // --- where is the query relative to the injected jump? ---
    let mut hit = false;
    if let Some(j) = w.jump {
        let a = j.size().unsigned_abs() as i64;
        let (name, bit) = if u == j.at {
            ("query_exactly_at_jump", 0)
        } else if u < j.at && j.at - u <= 60 {
            if j.size() < 0 {
                ("query_last_minute_before_fold", 1)
            } else {
                ("query_last_minute_before_gap", 2)
            }
        } else if j.size() < 0 && u < j.at && j.at - u <= a {
            ("query_inside_fold_first_occurrence", 3)
        } else if j.size() < 0 && u > j.at && u - j.at < a {
            ("query_inside_fold_second_occurrence", 4)
        } else if u < j.at {
            ("query_before_jump", 5)
        } else {
            ("query_after_jump", 6)
        };
        w.probes.hit(name);
        w.pos_bits |= 1 << bit;
        if bit <= 4 {
            hit = true;
        }
        if u < j.at && u + window > j.at {
            w.probes.hit("window_straddles_jump");
            hit = true;
        }
        if u < j.at && u + window == j.at {
            w.probes.hit("window_ends_exactly_at_jump");
            hit = true;
        }
        if window == 0 {
            w.probes.hit("window_zero_length");
        }
    }

    // --- I1: state ---
    let s_z = oh_z.state(dt_in.clone());
    let s_n = oh_n.state(wall);
    w.fp.tag(kind_code(s_z));
    if s_z != s_n {
        return Err((
            "state_mismatch".into(),
            format!("state at {} [{:?}] (utc {}) is {:?}; the location-free evaluation at the wall-clock time {} is {:?}", dt_in.naive_local(), obs_tz, ndt(u, now.1), s_z, wall, s_n),
        ));
    }
    let preds = (oh_z.is_open(dt_in.clone()), oh_z.is_closed(dt_in.clone()), oh_z.is_unknown(dt_in.clone()));
    if preds != (s_z == RuleKind::Open, s_z == RuleKind::Closed, s_z == RuleKind::Unknown) {
        return Err(("state_predicates_inconsistent".into(), format!("is_open/is_closed/is_unknown = {preds:?} but state = {s_z:?} at utc {}", ndt(u, now.1))));
    }

    // --- I2: next_change ---
    let n_z = oh_z.next_change(dt_in.clone());
    let n_n = oh_n.next_change(wall);
    let want = n_n.map(|n| (spec.map_local(secs(n)), n.and_utc().timestamp_subsec_nanos()));
    let got = n_z.as_ref().map(|d| (d.timestamp(), d.timestamp_subsec_nanos()));
    w.fp.i64(got.map(|g| g.0).unwrap_or(i64::MIN));
    if let Some(n) = n_n {
        classify_boundary(w, secs(n));
    } else {
        w.probes.hit("next_change_none");
    }
    if got != want {
        return Err((
            "next_change_mismatch".into(),
            format!(
                "next_change at utc {} (wall {}) returned {:?} (utc {:?}); the location-free answer is {:?}, whose context-zone instant is utc {:?}",
                ndt(u, now.1),
                wall,
                n_z.as_ref().map(|d| d.naive_local()),
                got.map(|g| ndt(g.0, g.1)),
                n_n,
                want.map(|g| ndt(g.0, g.1))
            ),
        ));
    }
    if let Some(d) = &n_z {
        if d.timezone() != *ctx_tz {
            return Err(("result_not_in_context_zone".into(), format!("next_change returned a datetime in zone {:?}, context zone is {:?}", d.timezone(), ctx_tz)));
        }
        if let Some(j) = w.jump {
            if u < j.at && d.timestamp() >= j.at {
                w.probes.hit("next_change_across_jump");
            }
        }
    }

    // --- I3: the interval stream over [u, u + window) ---
    // (a negative window is a range given backwards in absolute time; inside a repeated period its wall-clock
    // times can still run forwards -- `from` in the second pass, `to` in the first -- and the property defines the
    // evaluation on the wall clock)
    let v = u + window;
    let dt_to: DateTime<Tz> = obs_tz.from_utc_datetime(&ndt(v, now.1));
    let wall_v = ndt(v + spec.offset(v) as i64, now.1);
    if wall_v <= wall && window > 0 {
        w.probes.hit("window_shorter_than_fold");
        hit = true;
    }
    if wall_v > wall && window < 0 {
        w.probes.hit("window_backwards_in_absolute_time_forwards_on_the_wall_clock");
        hit = true;
    }
    let take = take.max(1) as usize;
    if take > 100 {
        w.probes.hit("long_stream_observed");
    }
    let got: Vec<_> = oh_z.iter_range(dt_in.clone(), dt_to).take(take).collect();
    let want: Vec<_> = oh_n.iter_range(wall, wall_v).take(take).collect();
    w.fp.u64(got.len() as u64);
    if got.len() != want.len() {
        return Err((
            "stream_length_mismatch".into(),
            format!("iter_range over utc [{}, {}) yields {} intervals, the location-free stream over wall [{wall}, {wall_v}) yields {}", ndt(u, now.1), ndt(v, now.1), got.len(), want.len()),
        ));
    }
    let mut prev_end: Option<DateTime<Tz>> = None;
    for (k, (g, n)) in got.iter().zip(&want).enumerate() {
        w.probes.hit("stream_intervals_compared");
        if g.kind != n.kind || g.comments != n.comments {
            return Err(("stream_state_mismatch".into(), format!("interval #{k} of the stream from utc {}: kind/comments {:?}/{:?}, location-free stream has {:?}/{:?}", ndt(u, now.1), g.kind, g.comments, n.kind, n.comments)));
        }
        classify_boundary(w, secs(n.range.start));
        classify_boundary(w, secs(n.range.end));
        let ws = (spec.map_local(secs(n.range.start)), n.range.start.and_utc().timestamp_subsec_nanos());
        let we = (spec.map_local(secs(n.range.end)), n.range.end.and_utc().timestamp_subsec_nanos());
        let gs = (g.range.start.timestamp(), g.range.start.timestamp_subsec_nanos());
        let ge = (g.range.end.timestamp(), g.range.end.timestamp_subsec_nanos());
        w.fp.i64(gs.0);
        w.fp.i64(ge.0);
        w.fp.tag(kind_code(g.kind));
        if gs != ws || ge != we {
            return Err((
                "stream_bounds_mismatch".into(),
                format!(
                    "interval #{k} of the stream from utc {}: bounds utc [{}, {}), expected the context-zone instants of wall [{}, {}) = utc [{}, {})",
                    ndt(u, now.1),
                    ndt(gs.0, gs.1),
                    ndt(ge.0, ge.1),
                    n.range.start,
                    n.range.end,
                    ndt(ws.0, ws.1),
                    ndt(we.0, we.1)
                ),
            ));
        }
        if g.range.start.timezone() != *ctx_tz || g.range.end.timezone() != *ctx_tz {
            return Err(("result_not_in_context_zone".into(), format!("interval #{k} is expressed in zone {:?}, context zone is {:?}", g.range.start.timezone(), ctx_tz)));
        }
        // (with an interval-size bound the location-free stream itself reports a truncated interval up to the
        // window end and then carries on from an earlier date -- the bound's approximation, property C16's matter;
        // the zone-aware stream is only required not to go backwards where the location-free one does not)
        let naive_monotone = n.range.end >= n.range.start && (k == 0 || n.range.start >= want[k - 1].range.end);
        if naive_monotone && (g.range.end < g.range.start || prev_end.as_ref().map_or(false, |p| g.range.start < *p)) {
            return Err(("bounds_go_backwards".into(), format!("interval #{k} of the stream from utc {}: [{}, {}) after previous end {:?} goes backwards in absolute time", ndt(u, now.1), g.range.start.naive_utc(), g.range.end.naive_utc(), prev_end.as_ref().map(|p| p.naive_utc()))));
        }
        if g.range.start == g.range.end && n.range.start != n.range.end {
            w.probes.hit("interval_collapsed_by_gap");
        }
        // I5 (independent of the location-free *stream*, which goes through the same `iter_range` code as the
        // zone-aware one): every interior start is the context-zone instant of a range start of that day's
        // `schedule_at` -- also where an interval-size bound cuts the stream into pieces
        if k >= 1 {
            let local = gs.0 + spec.offset(gs.0) as i64;
            let day0 = ndt(local, 0).date();
            let mut found = false;
            'days: for d in [Some(day0), day0.pred_opt(), day0.succ_opt()].into_iter().flatten() {
                let midnight = secs(d.and_hms_opt(0, 0, 0).unwrap());
                for tr in oh_n.schedule_at(d) {
                    let t = midnight + tr.range.start.hour() as i64 * 3600 + tr.range.start.minute() as i64 * 60;
                    if gs.1 == 0 && spec.map_local(t) == gs.0 {
                        found = true;
                        break 'days;
                    }
                }
            }
            w.probes.hit("interior_start_checked_against_day_schedule");
            if !found {
                return Err((
                    "start_not_a_schedule_boundary".into(),
                    format!("interval #{k} of the stream from utc {} starts at utc {} (wall {}), which is not the context-zone instant of any range start of the schedules of {day0} and its neighbours", ndt(u, now.1), ndt(gs.0, gs.1), ndt(local, gs.1)),
                ));
            }
        }
        prev_end = Some(g.range.end.clone());
    }
    // --- the open-ended stream (`iter_from`): its first intervals, against the location-free one ---
    {
        let k_max = take.min(3);
        let got: Vec<_> = oh_z.iter_from(dt_in.clone()).take(k_max).collect();
        let want: Vec<_> = oh_n.iter_from(wall).take(k_max).collect();
        w.probes.hit("open_ended_stream_compared");
        if got.len() != want.len() {
            return Err(("stream_length_mismatch".into(), format!("iter_from(utc {}) yields {} intervals among the first {k_max}, the location-free stream from wall {wall} yields {}", ndt(u, now.1), got.len(), want.len())));
        }
        for (k, (g, n)) in got.iter().zip(&want).enumerate() {
            let ws = (spec.map_local(secs(n.range.start)), n.range.start.and_utc().timestamp_subsec_nanos());
            let we = (spec.map_local(secs(n.range.end)), n.range.end.and_utc().timestamp_subsec_nanos());
            let gs = (g.range.start.timestamp(), g.range.start.timestamp_subsec_nanos());
            let ge = (g.range.end.timestamp(), g.range.end.timestamp_subsec_nanos());
            w.fp.i64(ge.0);
            if g.kind != n.kind || g.comments != n.comments || gs != ws || ge != we {
                return Err((
                    "stream_bounds_mismatch".into(),
                    format!("interval #{k} of iter_from(utc {}): {:?} utc [{}, {}), expected {:?} wall [{}, {}) = utc [{}, {})", ndt(u, now.1), g.kind, ndt(gs.0, gs.1), ndt(ge.0, ge.1), n.kind, n.range.start, n.range.end, ndt(ws.0, ws.1), ndt(we.0, we.1)),
                ));
            }
        }
    }
    if hit {
        w.jump_hits += 1;
        w.faults.hit("observation_inside_jump_window");
    }
    let _ = TimeDelta::zero();
    Ok(got_next(n_z))
}

/// I4: the wall-clock time of a sun event in the context zone is the zone's wall clock at the event's absolute
/// instant. The instant comes from `Coordinates::event_time` (no zone involved), the offset from the oracle's jump
/// table; the same question is first put to a UTC context (which must answer the instant's own time of day), so
/// that whatever a context remembers is the other zone's answer. Then `sunrise-sunset` is evaluated through the
/// zone-aware context two minutes before and after sunrise / sunset when no clock jump is within three hours.
fn sun<Tz>(w: &mut Walk, ctx_tz: &Tz, now: i64, day: i32, event: u8, lat: i32, lon: i32) -> Result<(), (String, String)>
where
    Tz: TimeZone + Send + Sync + PartialEq + Debug,
    Tz::Offset: Send + Sync,
{
    use opening_hours::localization::{Coordinates, Localize};
    use opening_hours_syntax::rules::time::TimeEvent;
    let spec = w.spec;
    let Some(coords) = Coordinates::new(lat as f64 / 1e4, lon as f64 / 1e4) else { return Ok(()) };
    let anchor = w.jump.map(|j| j.window().0).unwrap_or(now + spec.offset(now) as i64);
    let Some(date) = ndt(anchor, 0).date().checked_add_signed(TimeDelta::days(day as i64)) else { return Ok(()) };
    if !(1901..=9998).contains(&chrono::Datelike::year(&date)) {
        return Ok(());
    }
    let events = [TimeEvent::Dawn, TimeEvent::Sunrise, TimeEvent::Sunset, TimeEvent::Dusk];
    let ev = events[event as usize % 4];
    let local_on = |date: NaiveDate, e: TimeEvent| {
        let at = coords.event_time(date, e);
        let u = at.timestamp();
        (u, ndt(u + spec.offset(u) as i64, at.timestamp_subsec_nanos()))
    };
    let local_of = |e: TimeEvent| local_on(date, e);
    let at = coords.event_time(date, ev);
    let (u, want) = local_of(ev);
    w.probes.hit("sun_event_mapped");
    if w.jump.is_some_and(|j| ndt(j.window().0, 0).date() == want.date()) {
        w.probes.hit("sun_event_on_jump_day");
        if w.jump.is_some_and(|j| j.at <= u) {
            w.probes.hit("sun_event_after_the_jump_of_its_day");
        }
    }
    w.fp.i64(u);
    let in_utc = TzLocation::new(Utc).with_coords(coords).event_time(date, ev);
    if in_utc != at.naive_utc().time() {
        return Err(("sun_event_mismatch".into(), format!("{ev:?} of {date} at {coords}: a UTC context reports {in_utc}, the event is at {at}")));
    }
    let got = TzLocation::new(ctx_tz.clone()).with_coords(coords).event_time(date, ev);
    w.fp.u64(chrono::Timelike::num_seconds_from_midnight(&got) as u64);
    if got != want.time() {
        return Err((
            "sun_event_mismatch".into(),
            format!("{ev:?} of {date} at {coords} happens at utc {}, when the context zone's wall clock shows {want} (offset {} s); the context reports {got}", at.naive_utc(), spec.offset(u)),
        ));
    }
    // end to end, for sunrise and sunset
    let ((u_sr, l_sr), (u_ss, l_ss)) = (local_of(TimeEvent::Sunrise), local_of(TimeEvent::Sunset));
    let quiet = |u: i64| spec.jumps_between(u - 3 * 3600, u + 3 * 3600).is_empty();
    // (events are times of day: the span of the day before must not wrap past midnight into this one)
    // (with a margin: the evaluation works on whole minutes, and a span of zero minutes is a whole day)
    let eve_wraps = date.pred_opt().is_none_or(|p| local_on(p, TimeEvent::Sunset).1.time() - local_on(p, TimeEvent::Sunrise).1.time() < TimeDelta::minutes(5));
    if l_sr.date() == date && l_ss.date() == date && (l_ss - l_sr) > TimeDelta::minutes(30) && quiet(u_sr) && quiet(u_ss) && u_ss - u_sr > 1800 && !eve_wraps {
        let oh = OpeningHours::parse("sunrise-sunset").map_err(|e| ("harness".to_string(), format!("oracle: {e}")))?.with_context(Context::default().with_locale(TzLocation::new(ctx_tz.clone()).with_coords(coords)));
        w.probes.hit("sun_state_checked");
        for (u, want_open, what) in [(u_sr - 120, false, "2 min before sunrise"), (u_sr + 120, true, "2 min after sunrise"), (u_ss - 120, true, "2 min before sunset"), (u_ss + 120, false, "2 min after sunset")] {
            let dt = ctx_tz.from_utc_datetime(&ndt(u, 0));
            let st = oh.state(dt);
            w.fp.u64(kind_code(st) as u64);
            if (st == RuleKind::Open) != want_open {
                return Err(("sun_state_mismatch".into(), format!("`sunrise-sunset` at {coords}, utc {} ({what} of {date}): state {st:?}", ndt(u, 0))));
            }
        }
    }
    Ok(())
}

fn got_next<Tz: TimeZone>(n: Option<DateTime<Tz>>) -> Option<i64> {
    n.map(|d| d.timestamp())
}

/// Is this naive schedule boundary inside the wall-clock window of the injected jump?
fn classify_boundary(w: &mut Walk, local: i64) {
    if let Some(j) = w.jump {
        let (a, b) = j.window();
        if local >= a && local < b {
            if j.size() > 0 {
                w.probes.hit("boundary_in_gap_mapped");
                w.bnd_bits |= 1;
                if j.size() % 60 != 0 {
                    w.probes.hit("boundary_in_sub_minute_gap");
                    w.bnd_bits |= 4;
                }
                w.faults.hit("boundary_in_skipped_wall_clock");
            } else {
                w.probes.hit("boundary_in_fold_ambiguous");
                w.bnd_bits |= 2;
                w.faults.hit("boundary_in_repeated_wall_clock");
            }
            w.jump_hits += 1;
        }
    }
}
