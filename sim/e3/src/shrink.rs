//! Minimisation of a failing walk, keeping the violation class: drop steps,
//! simplify observer / holidays / windows, then simplify the expression.

use crate::exec::{execute, Fail};
use crate::scenario::{Scenario, Step};

fn still_fails(sc: &Scenario, class: &str) -> Option<Fail> {
    if simcore::minimise_expired() {
        return None;
    }
    let sc = sc.clone();
    let out = simcore::with_timeout(move || execute(&sc))?;
    if out.harness_error.is_some() {
        return None;
    }
    out.fail.filter(|f| f.class == class)
}

pub fn minimise(sc: &Scenario, fail: &Fail) -> (Scenario, Fail) {
    let class = fail.class.clone();
    let mut best = sc.clone();
    let mut best_fail = fail.clone();
    let mut budget = 600u32;

    macro_rules! attempt {
        ($cand:expr) => {{
            let cand: Scenario = $cand;
            if budget > 0 && cand != best {
                budget -= 1;
                if let Some(f) = still_fails(&cand, &class) {
                    best = cand;
                    best_fail = f;
                    true
                } else {
                    false
                }
            } else {
                false
            }
        }};
    }

    // 1. drop everything after the failing step
    if best_fail.step + 1 < best.steps.len() {
        let mut c = best.clone();
        c.steps.truncate(best_fail.step + 1);
        attempt!(c);
    }
    // 2. ddmin over steps
    {
        let steps = best.steps.clone();
        let proto = best.clone();
        let min_steps = simcore::ddmin(&steps, |cand| {
            if budget == 0 {
                return false;
            }
            budget -= 1;
            let mut c = proto.clone();
            c.steps = cand.to_vec();
            still_fails(&c, &class).is_some()
        });
        let mut c = best.clone();
        c.steps = min_steps;
        attempt!(c);
    }
    // 3. make the position explicit: replace the relative moves that remain by
    //    one Goto to the failing instant
    // (skipped: relative steps are deterministic functions of the code under test, which is what replay needs)

    // 4. simplify the environment
    {
        let mut c = best.clone();
        c.observer = c.zone.clone();
        attempt!(c);
        let mut c = best.clone();
        c.holidays.clear();
        attempt!(c);
        for i in 0..best.steps.len() {
            if let Step::Observe { window, take } = best.steps[i].clone() {
                for (w2, t2) in [(60, 1), (window, 1), (60, take), (3600, 1), (86400, 2)] {
                    let mut c = best.clone();
                    c.steps[i] = Step::Observe { window: w2, take: t2 };
                    if attempt!(c) {
                        break;
                    }
                }
            }
            if let Step::ObserveUntilJump { delta, take } = best.steps[i].clone() {
                for t2 in [1, take] {
                    let mut c = best.clone();
                    c.steps[i] = Step::ObserveUntilJump { delta, take: t2 };
                    if attempt!(c) {
                        break;
                    }
                }
            }
            if let Step::Map { local, nanos } = best.steps[i].clone() {
                if nanos != 0 {
                    let mut c = best.clone();
                    c.steps[i] = Step::Map { local, nanos: 0 };
                    attempt!(c);
                }
            }
            if let Step::Goto { utc, nanos } = best.steps[i].clone() {
                if nanos != 0 {
                    let mut c = best.clone();
                    c.steps[i] = Step::Goto { utc, nanos: 0 };
                    attempt!(c);
                }
            }
        }
    }
    // 5. simpler expressions: single parts of the original, then constants
    {
        let mut cands: Vec<String> = Vec::new();
        for sep in [";", "||", ","] {
            for part in best.expr.split(sep) {
                let p = part.trim();
                if !p.is_empty() && p != best.expr {
                    cands.push(p.to_string());
                }
            }
        }
        // strip comments / modifiers
        if let Some(i) = best.expr.find('"') {
            cands.push(best.expr[..i].trim().to_string());
        }
        cands.push("24/7".into());
        cands.push("00:00-24:00".into());
        cands.push("10:00-18:00".into());
        for e in cands {
            if e.len() < best.expr.len() {
                let mut c = best.clone();
                c.expr = e;
                attempt!(c);
            }
        }
    }
    (best, best_fail)
}
