//! Seeded generator of E3 walks. The injected faults are the discontinuities
//! of the context zone's offset function, taken from the real IANA data; the
//! generator places queries and schedule boundaries inside and next to the
//! skipped / repeated wall-clock window of one such jump.

use std::sync::OnceLock;

use chrono::{Datelike, NaiveDate, Weekday};
use chrono_tz::Tz;
use simcore::Rng;

use crate::scenario::{Scenario, Step};
use crate::zones::{naive_of, secs, table_range, tables, Jump, ZoneSpec};

static INDEX: OnceLock<Vec<Vec<(u32, u32)>>> = OnceLock::new();

/// jumps grouped by kind, so that rare kinds (Lord Howe, date-line moves,
/// sub-minute LMT shifts) are sampled as often as the ordinary 1 h DST ones
pub fn index() -> &'static Vec<Vec<(u32, u32)>> {
    INDEX.get_or_init(|| {
        let mut v: Vec<Vec<(u32, u32)>> = vec![Vec::new(); 10];
        for (zi, t) in tables().iter().enumerate() {
            for (ji, j) in t.jumps.iter().enumerate() {
                v[j.kind().0 as usize].push((zi as u32, ji as u32));
            }
        }
        v
    })
}

fn hhmm(tod_secs: i64, plus24: bool) -> String {
    let m = tod_secs.rem_euclid(86400) / 60;
    format!("{:02}:{:02}", m / 60 + if plus24 { 24 } else { 0 }, m % 60)
}

const MONTHS: [&str; 12] = ["Jan", "Feb", "Mar", "Apr", "May", "Jun", "Jul", "Aug", "Sep", "Oct", "Nov", "Dec"];

fn wd(w: Weekday) -> &'static str {
    match w {
        Weekday::Mon => "Mo",
        Weekday::Tue => "Tu",
        Weekday::Wed => "We",
        Weekday::Thu => "Th",
        Weekday::Fri => "Fr",
        Weekday::Sat => "Sa",
        Weekday::Sun => "Su",
    }
}

/// A time span "HH:MM-HH:MM" whose bounds are two of the interesting wall-clock
/// seconds around the window [ws, we).
fn span(rng: &mut Rng, ws: i64, we: i64) -> (String, i64) {
    let mid = ws + (we - ws) / 2;
    let c = [ws - 3600, ws - 60, ws, ws + 60, mid, we - 60, we, we + 60, we + 3600, ws - 7 * 3600, we + 5 * 3600];
    let mut a = *rng.pick(&c);
    let mut b = *rng.pick(&c);
    if b < a {
        std::mem::swap(&mut a, &mut b);
    }
    a = a.div_euclid(60) * 60;
    b = b.div_euclid(60) * 60;
    if b - a >= 86400 {
        b = a + 23 * 3600;
    }
    if a.rem_euclid(86400) == b.rem_euclid(86400) {
        b += 60 * rng.range(1, 90);
    }
    let wraps = b.div_euclid(86400) != a.div_euclid(86400);
    let end = if wraps && rng.chance(1, 2) { hhmm(b, true) } else { hhmm(b, false) };
    (format!("{}-{}", hhmm(a, false), end), a)
}

/// Expressions whose state never changes without being syntactically constant
/// ("00:00+", two spans that happen to cover the whole day) make the library
/// scan day by day up to year 9999 (a bounded-work matter, property C04, not
/// C09): the generator replaces them by a plain span.
fn gen_expr(rng: &mut Rng, window: Option<(i64, i64)>) -> String {
    let e = gen_expr_raw(rng, window);
    if e == "24/7" || e == "00:00-24:00" {
        return e;
    }
    let day = naive_of(window.map(|w| w.0).unwrap_or(86400 * 20000)).date();
    let constant = match opening_hours::OpeningHours::parse(&e) {
        Err(_) => true,
        Ok(oh) => {
            let days = [day.pred_opt().unwrap_or(day), day, day.succ_opt().unwrap_or(day), day + chrono::TimeDelta::days(2)];
            let kinds: Vec<_> = days.iter().map(|d| oh.schedule_at(*d).into_iter().map(|r| r.kind).collect::<Vec<_>>()).collect();
            kinds.iter().all(|k| k.len() == 1 && k[0] == kinds[0][0])
        }
    };
    if constant {
        let (ws, we) = window.unwrap_or((86400 * 20000 + 36000, 86400 * 20000 + 39600));
        span(rng, ws, we).0
    } else {
        e
    }
}

fn gen_expr_raw(rng: &mut Rng, window: Option<(i64, i64)>) -> String {
    // quiet runs get an arbitrary window in the middle of a day
    let (ws, we) = window.unwrap_or_else(|| {
        let s = 86400 * 20000 + rng.range(0, 1439) * 60;
        (s, s + 3600)
    });
    let (s1, a1) = span(rng, ws, we);
    let (s2, _) = span(rng, ws, we);
    let day = naive_of(a1).date();
    let jump_day = naive_of(ws).date();
    let e = match rng.below(22) {
        0 => "24/7".to_string(),
        1 => "00:00-24:00".to_string(),
        2 => format!("Mo-Su 00:00-24:00 \"always\"; {s1} off"),
        3 => format!("{s1} open \"w\""),
        4 => format!("{s1} unknown \"maybe\""),
        5 => format!("24/7; {s1} off"),
        6 => format!("{} {s1}", wd(day.weekday())),
        7 => format!("{} {} {:02} {s1}", day.year().clamp(1900, 9999), MONTHS[day.month0() as usize], day.day()),
        8 => format!("{s1}; PH off"),
        9 => format!("PH {s1}"),
        10 => format!("{s1}, {s2}"),
        11 => format!("{s1}; {s2} unknown"),
        12 => "sunrise-sunset".to_string(),
        13 => format!("dawn-{}", s1.split('-').nth(1).unwrap_or("20:00")),
        14 => format!("{}+", s1.split('-').next().unwrap_or("10:00")),
        15 => format!("Mo-Fr {s1}; Sa,Su {s2}"),
        16 => format!("{} {:02}-{} {:02}: {s1}", MONTHS[jump_day.month0() as usize], jump_day.day(), MONTHS[jump_day.succ_opt().unwrap_or(jump_day).month0() as usize], jump_day.succ_opt().unwrap_or(jump_day).day()),
        17 => format!("{s1} || {s2} unknown \"fallback\""),
        18 => format!("{} {s1}, {} {s2} \"c\"", wd(jump_day.weekday()), wd(jump_day.weekday().succ())),
        19 => format!("week 01-53/2 {s1}; week 02-52/2 {s2}"),
        _ => s1,
    };
    e
}

fn random_zone(rng: &mut Rng) -> Tz {
    *rng.pick(&chrono_tz::TZ_VARIANTS[..])
}

/// a zone (other than ctx) that itself has a jump within two hours of `at`, if a few random draws find one
fn observer_jumping_near(rng: &mut Rng, ctx: Tz, at: i64) -> Option<Tz> {
    for _ in 0..12 {
        let z = random_zone(rng);
        if z != ctx && !ZoneSpec::Iana(z).jumps_between(at - 7200, at + 7200).is_empty() {
            return Some(z);
        }
    }
    None
}

fn observer_for(rng: &mut Rng, ctx: Tz) -> Tz {
    match rng.below(8) {
        0 | 1 => ctx,
        2 => chrono_tz::UTC,
        3 => chrono_tz::Pacific::Kiritimati,
        4 => chrono_tz::Pacific::Pago_Pago,
        _ => random_zone(rng),
    }
}

fn observe(rng: &mut Rng, size: i64) -> Step {
    let size = size.abs().max(60);
    if rng.chance(1, 6) {
        // windows whose end is placed relative to the jump: exactly at it, a second before / after, after the repeated period
        let delta = *rng.pick(&[0, 0, -1, 1, -60, 60, size, size - 1, size + 1, size / 2]);
        return Step::ObserveUntilJump { delta, take: rng.range(1, 8) as u32 };
    }
    if rng.chance(1, 40) {
        return Step::Observe { window: 0, take: 1 };
    }
    // ranges given backwards in absolute time, by less than the size of the jump: from the second pass of a
    // repeated period into the first one they run forwards on the wall clock
    if rng.chance(1, 14) {
        let inside = rng.range(1, size.max(2) - 1);
        let back = *rng.pick(&[1, 60, size / 2, size - 60, size - 1, inside, size, size + 60]);
        return Step::Observe { window: -back.max(1), take: rng.range(1, 8) as u32 };
    }
    let window = *rng.pick(&[1, 30, 59, 60, 61, 90, size / 2, size - 1, size, size + 1, 2 * size, 3600, 7200, 86400, 3 * 86400, 40 * 86400]);
    Step::Observe { window: window.max(1), take: rng.range(1, 8) as u32 }
}

pub fn generate(rng: &mut Rng, _tier: &str) -> Scenario {
    let mut sc = match rng.below(100) {
        0..=79 => gen_jump_run(rng),
        80..=87 => gen_quiet_run(rng),
        88..=93 => gen_fixed_run(rng),
        _ => gen_bound_run(rng),
    };
    decorate(rng, &mut sc);
    sc
}

/// swarm: coordinates on the context (for expressions without sun events they must not matter), an interval
/// bound on both contexts, arbitrary sub-second parts, and now and then a long stream
pub fn decorate(rng: &mut Rng, sc: &mut Scenario) {
    let has_event = ["sunrise", "sunset", "dawn", "dusk"].iter().any(|k| sc.expr.contains(k));
    if !has_event && rng.chance(1, 10) {
        sc.coords = Some(*rng.pick(&[(488535, 23484), (-338688, 1512093), (641466, -219426), (0, 0), (-900000, 0), (18720, -1574270)]));
    }
    if rng.chance(1, 12) {
        sc.bound_days = Some(*rng.pick(&[1, 2, 7, 30, 366]));
        // half of them on an expression whose closed periods exceed a small bound, observed over weeks: the stream
        // of a bounded context is then not contiguous (an interval is cut at the bound and the next one starts
        // later), and every interval must still be mapped from its own wall-clock bounds
        if rng.chance(1, 2) {
            sc.bound_days = Some(*rng.pick(&[1, 1, 2]));
            sc.expr = rng.pick(&["Mo,We,Sa 10:00-12:00", "Tu,Fr 09:00-17:00; Su 12:00-13:00 unknown", "Su 01:30-03:30; We 12:00-14:00", "Mo[1] 10:00-12:00; Th 02:00-03:00", "week 01-53/2 Sa,Su 01:00-04:00"]).to_string();
            for st in sc.steps.iter_mut() {
                if let Step::Observe { window, take } = st {
                    if rng.chance(1, 2) {
                        *window = rng.range(5, 45) * 86400 + rng.range(0, 86399);
                        *take = rng.range(4, 14) as u32;
                    }
                }
            }
        }
    }
    for st in sc.steps.iter_mut() {
        match st {
            // (chrono represents a leap second as second 59 with 1e9 <= nanos < 2e9; only where the context
            // zone's offset is a whole number of minutes, so that the wall clock is in second 59 as well)
            Step::Goto { utc, nanos } if *utc % 60 == 59 && rng.chance(1, 3) && sc.jump.map_or(true, |(_, b, a)| b % 60 == 0 && a % 60 == 0) && !sc.zone.starts_with("fixed:") => *nanos = 1_000_000_000 + rng.below(1_000_000_000) as u32,
            Step::Goto { nanos, .. } if *nanos != 0 && rng.chance(1, 2) => *nanos = rng.below(1_000_000_000) as u32,
            // (long streams only without a bound: with it the two evaluations give up at different wall-clock dates)
            Step::Observe { window, take } if sc.bound_days.is_none() && rng.chance(1, 60) => {
                *window = 400 * 86400;
                *take = 600;
            }
            _ => {}
        }
    }
}

/// a sun event at a place whose solar time is close to the zone's clock (so that sunrise and sunset fall on the
/// local day), now and then anywhere on the globe (the mapping itself must hold everywhere)
fn sun_step(rng: &mut Rng, offset: i32) -> Step {
    let (lat, lon) = if rng.chance(1, 5) {
        (rng.range(-600000, 600000) as i32, rng.range(-1800000, 1800000) as i32)
    } else {
        (rng.range(-550000, 550000) as i32, (offset as i64 * 10000 / 240 + rng.range(-100000, 100000)).clamp(-1799000, 1799000) as i32)
    };
    Step::Sun { day: *rng.pick(&[0, 0, 0, 0, -1, 1, -2, 2, 7, -7]), event: rng.below(4) as u8, lat, lon }
}

pub fn scenario_around(rng: &mut Rng, tz: Tz, j: Jump) -> Scenario {
    let (ws, we) = j.window();
    let size = (we - ws).max(1);
    let expr = gen_expr(rng, Some((ws, we)));
    let jd = naive_of(ws).date();
    let holidays = match rng.below(4) {
        0 => vec![(jd.year(), jd.month(), jd.day())],
        1 => {
            let n = jd.succ_opt().unwrap_or(jd);
            vec![(jd.year(), jd.month(), jd.day()), (n.year(), n.month(), n.day())]
        }
        _ => vec![],
    };
    let back = *rng.pick(&[0, 1, 30, 59, 60, 61, 90, 300, 3599, 3600, 3601, 7200, 3 * 3600, 86400, 90000, size, size + 1, size - 1, size / 2]);
    let start_utc = j.at - back.max(0);
    // swarm, sizes: one walk in a hundred is long (the client follows the returned instants for a long time)
    let n_events = if rng.chance(1, 100) { rng.range(60, 150) } else { rng.range(2, 12) };
    let mut steps = vec![observe(rng, size)];
    for _ in 0..n_events {
        let s = match rng.below(15) {
            14 => sun_step(rng, j.after),
            0 => Step::Goto { utc: if rng.chance(1, 4) { j.at - 1 - 60 * rng.range(0, 3) } else { j.at - rng.range(1, 60) }, nanos: 0 },
            1 => Step::Goto { utc: j.at, nanos: 0 },
            2 => Step::Goto { utc: j.at + 1, nanos: 0 },
            3 => Step::Goto { utc: j.at - 1, nanos: *rng.pick(&[0, 500_000_000, 999_999_999]) },
            4 => Step::Goto { utc: j.at + size - rng.range(0, 61), nanos: 0 },
            5 => Step::Goto { utc: j.at + size + rng.range(0, 61), nanos: 0 },
            6 => Step::Goto { utc: j.at - size + rng.range(-30, 30), nanos: 0 },
            7 | 8 => Step::FollowNextChange,
            9 | 10 => Step::Between(rng.below(1000) as u32),
            11 => {
                if rng.chance(1, 2) {
                    // the public mapping called directly for a wall-clock time in or next to the skipped / repeated window
                    let inside = ws + rng.range(0, size.max(1));
                    let l = *rng.pick(&[ws - 1, ws, ws + 1, ws + size / 2, we - 1, we, we + 1, inside]);
                    Step::Map { local: l, nanos: *rng.pick(&[0, 0, 1, 250_000, 999_999_999]) }
                } else {
                    Step::Advance(rng.range(1, 120))
                }
            }
            12 => Step::Advance(rng.range(60, 7200)),
            _ => Step::Goto { utc: j.at + rng.range(-size, size), nanos: 0 },
        };
        // one Goto in eight carries a sub-second part
        let s = match s {
            Step::Goto { utc, nanos: 0 } if rng.chance(1, 8) => Step::Goto { utc, nanos: *rng.pick(&[1, 500_000_000, 999_999_999]) },
            other => other,
        };
        steps.push(s);
        steps.push(observe(rng, size));
    }
    let observer = if rng.chance(1, 6) { observer_jumping_near(rng, tz, j.at).unwrap_or_else(|| observer_for(rng, tz)) } else { observer_for(rng, tz) };
    Scenario { zone: tz.name().to_string(), observer: observer.name().to_string(), expr, holidays, jump: Some((j.at, j.before, j.after)), start_utc, steps, coords: None, bound_days: None }
}

fn gen_jump_run(rng: &mut Rng) -> Scenario {
    let idx = index();
    let mut kind = rng.usize_below(10);
    while idx[kind].is_empty() {
        kind = (kind + 1) % 10;
    }
    let (zi, ji) = *rng.pick(&idx[kind]);
    let t = &tables()[zi as usize];
    scenario_around(rng, t.tz, t.jumps[ji as usize])
}

fn quiet_steps(rng: &mut Rng) -> Vec<Step> {
    let n = rng.range(2, 8);
    let mut steps = vec![observe(rng, 3600)];
    for _ in 0..n {
        if rng.chance(1, 10) {
            let off = (rng.range(-12, 14) * 3600) as i32;
            steps.push(sun_step(rng, off));
        }
        steps.push(match rng.below(5) {
            0 | 1 => Step::FollowNextChange,
            2 => Step::Between(rng.below(1000) as u32),
            3 => Step::Advance(rng.range(1, 86400)),
            _ => Step::Advance(rng.range(1, 90)),
        });
        steps.push(observe(rng, 3600));
    }
    steps
}

fn gen_quiet_run(rng: &mut Rng) -> Scenario {
    let tz = random_zone(rng);
    let spec = ZoneSpec::Iana(tz);
    // one quiet run in three is anywhere in the supported range 1900..9999, outside the reconstructed jump table
    // (the oracle then reconstructs the neighbourhood's offsets on the fly)
    if rng.chance(1, 3) {
        let lo = secs(NaiveDate::from_ymd_opt(1900, 1, 5).unwrap().and_hms_opt(0, 0, 0).unwrap());
        let hi = secs(NaiveDate::from_ymd_opt(9999, 12, 20).unwrap().and_hms_opt(0, 0, 0).unwrap());
        let t = lo + rng.below((hi - lo) as u64) as i64;
        return Scenario { zone: tz.name().into(), observer: observer_for(rng, tz).name().into(), expr: gen_expr(rng, None), holidays: vec![], jump: None, start_utc: t, steps: quiet_steps(rng), coords: None, bound_days: None };
    }
    let (lo, hi) = table_range();
    let mut t = lo + 10 * 86400 + rng.below((hi - lo - 20 * 86400) as u64) as i64;
    for _ in 0..20 {
        if spec.jumps_between(t - 45 * 86400, t + 45 * 86400).is_empty() {
            break;
        }
        t = lo + 10 * 86400 + rng.below((hi - lo - 20 * 86400) as u64) as i64;
    }
    // a jump may still be near after 20 attempts; then it is simply one more jump run without placement
    Scenario { zone: tz.name().into(), observer: observer_for(rng, tz).name().into(), expr: gen_expr(rng, None), holidays: vec![], jump: None, start_utc: t, steps: quiet_steps(rng), coords: None, bound_days: None }
}

fn gen_fixed_run(rng: &mut Rng) -> Scenario {
    const OFFS: [i32; 12] = [0, 3600, -3600, 19800, 20700, -34200, 50400, -43200, 1172, -17762, 45900, 1];
    let t = secs(NaiveDate::from_ymd_opt(1950, 1, 1).unwrap().and_hms_opt(0, 0, 0).unwrap()) + rng.below(100 * 365 * 86400) as i64;
    if rng.chance(1, 4) {
        Scenario { zone: "utc".into(), observer: "utc".into(), expr: gen_expr(rng, None), holidays: vec![], jump: None, start_utc: t, steps: quiet_steps(rng), coords: None, bound_days: None }
    } else {
        Scenario {
            zone: format!("fixed:{}", rng.pick(&OFFS)),
            observer: format!("fixed:{}", rng.pick(&OFFS)),
            expr: gen_expr(rng, None),
            holidays: vec![],
            jump: None,
            start_utc: t,
            steps: quiet_steps(rng),
            coords: None,
            bound_days: None,
        }
    }
}

/// Walks around 1900-01-01 and 9999-12-31 / 10000-01-01 *in the context zone*,
/// where the absolute and the wall-clock date bounds differ by the zone offset.
fn gen_bound_run(rng: &mut Rng) -> Scenario {
    let tz = match rng.below(6) {
        0 => chrono_tz::Pacific::Kiritimati,
        1 => chrono_tz::Etc::GMTPlus12,
        2 => chrono_tz::Pacific::Apia,
        3 => chrono_tz::Asia::Manila,
        _ => random_zone(rng),
    };
    let spec = ZoneSpec::Iana(tz);
    let local0 = if rng.chance(1, 2) { secs(NaiveDate::from_ymd_opt(1900, 1, 1).unwrap().and_hms_opt(0, 0, 0).unwrap()) } else { secs(NaiveDate::from_ymd_opt(10000, 1, 1).unwrap().and_hms_opt(0, 0, 0).unwrap()) };
    let approx = local0 - spec.offset(local0) as i64;
    let start = approx - *rng.pick(&[0, 1, 59, 60, 61, 3600, 7200, 20 * 3600, 86400, 2 * 86400]);
    let n = rng.range(2, 8);
    let mut steps = vec![observe(rng, 3600)];
    for _ in 0..n {
        steps.push(match rng.below(6) {
            0 => Step::Goto { utc: approx - 1, nanos: 0 },
            1 => Step::Goto { utc: approx, nanos: 0 },
            2 => Step::Goto { utc: approx + rng.range(1, 3600), nanos: 0 },
            3 => Step::FollowNextChange,
            4 => Step::Between(rng.below(1000) as u32),
            _ => Step::Advance(rng.range(1, 7200)),
        });
        steps.push(observe(rng, 3600));
    }
    let expr = match rng.below(4) {
        0 => "24/7".to_string(),
        1 => "00:00-24:00".to_string(),
        _ => gen_expr(rng, Some((local0 - 1800, local0 + 1800))),
    };
    Scenario { zone: tz.name().into(), observer: observer_for(rng, tz).name().into(), expr, holidays: vec![], jump: None, start_utc: start, steps, coords: None, bound_days: None }
}
