//! C10 baseline schedules on the shipped (guard-off) build: the embedded
//! holiday tables are compared with the data files exhaustively, in each of the
//! sequential first-use schedules that the shipped code allows from a fresh
//! process (one forked child per schedule):
//!   S1  the first caller asks for the first country of the region list,
//!   S2  the first caller asks for the last one,
//!   S3  the first use happens through a PH evaluation, then SH, then direct,
//!   S4  two real OS threads race on the first use (uncontrolled; a smoke
//!       schedule only — the controlled ones are the shuttle part).
//! Writes evidence/C10.base.part.json (merged into C10.json by bin/merge-evidence).
//!
//! For one fixed schedule this is enumeration, not simulation (DESIGN.md says
//! so); the simulation family's contribution is the schedule dimension.

use std::collections::{BTreeMap, BTreeSet};
use std::io::{Read, Write};
use std::os::fd::FromRawFd;

use chrono::{Datelike, NaiveDate};
use opening_hours::localization::Country;
use opening_hours::{Context, OpeningHours, RuleKind};
use simcore::{json, Value};

type Files = BTreeMap<String, BTreeSet<NaiveDate>>;

fn load(path: &str) -> Files {
    let text = std::fs::read_to_string(path).unwrap_or_else(|e| {
        println!("harness error: cannot read {path}: {e}");
        std::process::exit(2)
    });
    let mut m: Files = BTreeMap::new();
    for line in text.lines() {
        if line.trim().is_empty() {
            continue;
        }
        let mut it = line.splitn(2, ' ');
        let region = it.next().unwrap_or("");
        match it.next().and_then(|d| NaiveDate::parse_from_str(d.trim(), "%Y-%m-%d").ok()) {
            Some(d) => {
                m.entry(region.to_string()).or_default().insert(d);
            }
            None => {
                println!("harness error: {path}: cannot parse {line:?}");
                std::process::exit(2)
            }
        }
    }
    m
}

#[derive(Default)]
struct Out {
    checks: u64,
    mismatches: Vec<String>,
}

impl Out {
    fn bad(&mut self, m: String) {
        if self.mismatches.len() < 5 {
            self.mismatches.push(m);
        }
    }
}

fn date_range(thorough: bool) -> (NaiveDate, NaiveDate) {
    if thorough {
        (NaiveDate::from_ymd_opt(1900, 1, 1).unwrap(), NaiveDate::from_ymd_opt(2200, 12, 31).unwrap())
    } else {
        (NaiveDate::from_ymd_opt(1990, 1, 1).unwrap(), NaiveDate::from_ymd_opt(2085, 12, 31).unwrap())
    }
}

/// full comparison of one country's calendars with the files
fn compare_country(c: Country, public: &Files, school: &Files, thorough: bool, out: &mut Out) {
    let code = c.iso_code();
    let h = c.holidays();
    let empty = BTreeSet::new();
    for (name, cal, file) in [("public", h.get_public(), public.get(code).unwrap_or(&empty)), ("school", h.get_school(), school.get(code).unwrap_or(&empty))] {
        let got: Vec<NaiveDate> = cal.iter().collect();
        out.checks += 1;
        if !got.iter().eq(file.iter()) {
            let extra: Vec<_> = got.iter().filter(|d| !file.contains(d)).take(3).collect();
            let missing: Vec<_> = file.iter().filter(|d| !got.contains(d)).take(3).collect();
            out.bad(format!("{code} {name}: embedded calendar has {} dates, file lists {}; e.g. only embedded {extra:?}, only in file {missing:?}", got.len(), file.len()));
        }
        if cal.count() as usize != file.len() {
            out.bad(format!("{code} {name}: count() = {}, file lists {}", cal.count(), file.len()));
        }
        let (lo, hi) = date_range(thorough);
        let mut d = lo;
        while d <= hi {
            out.checks += 1;
            if cal.contains(d) != file.contains(&d) {
                out.bad(format!("{code} {name}: contains({d}) = {}, file says {}", cal.contains(d), file.contains(&d)));
            }
            d = d.succ_opt().unwrap();
        }
        // first_after (what the PH / SH hints use) agrees with the file from every listed date, its neighbours and a
        // few far-away dates
        let far = [(1900, 1, 1), (1998, 12, 31), (1999, 1, 1), (2075, 12, 31), (2076, 1, 1), (2200, 6, 1), (9999, 12, 31), (1, 1, 1), (-1, 6, 1)];
        let mut queries: Vec<NaiveDate> = far.iter().filter_map(|(y, m, d)| NaiveDate::from_ymd_opt(*y, *m, *d)).collect();
        for ld in file {
            queries.extend([ld.pred_opt(), Some(*ld), ld.succ_opt()].into_iter().flatten());
        }
        for q in queries {
            out.checks += 1;
            use std::ops::Bound::*;
            let want = file.range((Excluded(q), Unbounded)).next().copied();
            if cal.first_after(q) != want {
                out.bad(format!("{code} {name}: first_after({q}) = {:?}, file says {want:?}", cal.first_after(q)));
            }
        }
        // aliases of the listed dates: the same day 2^k years away (k = 7, 8, 15, 16, 17; an index or key narrowed to
        // 8 / 16 bits wraps exactly there) and the window length away must be unlisted, wherever chrono can
        // represent them
        {
            let span = match (file.iter().next(), file.iter().next_back()) {
                (Some(a), Some(b)) => b.year() - a.year() + 1,
                _ => 0,
            };
            let stride = if thorough { 1 } else { 7 };
            for ld in file.iter().step_by(stride) {
                for dy in [128, 256, 32_768, 65_536, 131_072, span, 2 * span] {
                    for sign in [-1, 1] {
                        if dy == 0 {
                            continue;
                        }
                        if let Some(d) = NaiveDate::from_ymd_opt(ld.year() + sign * dy, ld.month(), ld.day().min(28)) {
                            out.checks += 1;
                            if cal.contains(d) != file.contains(&d) {
                                out.bad(format!("{code} {name}: contains({d}) = {} ({} is listed, {dy} years away), file says {}", cal.contains(d), ld, file.contains(&d)));
                            }
                        }
                    }
                }
            }
        }
        // every listed date and its neighbours, wherever they are
        for ld in file {
            for d in [ld.pred_opt(), Some(*ld), ld.succ_opt()].into_iter().flatten() {
                out.checks += 1;
                if cal.contains(d) != file.contains(&d) {
                    out.bad(format!("{code} {name}: contains({d}) = {}, file says {}", cal.contains(d), file.contains(&d)));
                }
            }
        }
    }
}

/// PH / SH selectors see exactly the listed dates
fn compare_selectors(c: Country, public: &Files, school: &Files, thorough: bool, out: &mut Out) {
    let code = c.iso_code();
    let empty = BTreeSet::new();
    for (expr, file) in [("PH", public.get(code).unwrap_or(&empty)), ("SH", school.get(code).unwrap_or(&empty))] {
        let oh = OpeningHours::parse(expr).expect("PH/SH parse").with_context(Context::default().with_holidays(c.holidays()));
        // per-day states over the listed years (thorough: every country; quick: listed dates, neighbours and a stride)
        let years: BTreeSet<i32> = file.iter().map(|d| d.year()).collect();
        let mut probe: BTreeSet<NaiveDate> = BTreeSet::new();
        for ld in file {
            for d in [ld.pred_opt(), Some(*ld), ld.succ_opt()].into_iter().flatten() {
                probe.insert(d);
            }
        }
        if thorough {
            for y in &years {
                let mut d = NaiveDate::from_ymd_opt(*y, 1, 1).unwrap();
                while d.year() == *y {
                    probe.insert(d);
                    d = d.succ_opt().unwrap();
                }
            }
        }
        for d in probe {
            out.checks += 1;
            let open = oh.state(d.and_hms_opt(12, 0, 0).unwrap()) == RuleKind::Open;
            if open != file.contains(&d) {
                out.bad(format!("{code}: `{expr}` is {} on {d}, file says listed={}", if open { "open" } else { "closed" }, file.contains(&d)));
            }
        }
        // the interval stream agrees with the file as well: walk next_change over the listed span
        if let (Some(first), Some(last)) = (file.iter().next(), file.iter().next_back()) {
            let from = first.pred_opt().unwrap().and_hms_opt(0, 0, 0).unwrap();
            let to = last.succ_opt().unwrap().succ_opt().unwrap().and_hms_opt(0, 0, 0).unwrap();
            let mut open_days: BTreeSet<NaiveDate> = BTreeSet::new();
            for r in oh.iter_range(from, to) {
                out.checks += 1;
                if r.kind == RuleKind::Open {
                    let mut d = r.range.start.date();
                    while d.and_hms_opt(0, 0, 0).unwrap() < r.range.end {
                        open_days.insert(d);
                        d = d.succ_opt().unwrap();
                    }
                }
            }
            if open_days != *file {
                let a: Vec<_> = open_days.symmetric_difference(file).take(3).collect();
                out.bad(format!("{code}: the interval stream of `{expr}` over the listed span is open on {} days, the file lists {}; differing e.g. {a:?}", open_days.len(), file.len()));
            }
        }
    }
}

/// PH with day offsets and PH inside weekday lists see the same dates (quick: every fifth country)
fn compare_selector_variants(c: Country, public: &Files, out: &mut Out) {
    let code = c.iso_code();
    let empty = BTreeSet::new();
    let file = public.get(code).unwrap_or(&empty);
    let (Some(first), Some(last)) = (file.iter().next(), file.iter().next_back()) else { return };
    let from = first.pred_opt().unwrap().pred_opt().unwrap().and_hms_opt(0, 0, 0).unwrap();
    let to = last.succ_opt().unwrap().succ_opt().unwrap().succ_opt().unwrap().and_hms_opt(0, 0, 0).unwrap();
    let span_days = || {
        let mut v = Vec::new();
        let mut d = from.date();
        while d < to.date() {
            v.push(d);
            d = d.succ_opt().unwrap();
        }
        v
    };
    let shifted = |k: i64| -> BTreeSet<NaiveDate> { file.iter().map(|d| *d + chrono::TimeDelta::days(k)).filter(|d| *d >= from.date() && *d < to.date()).collect() };
    let cases: Vec<(&str, BTreeSet<NaiveDate>)> = vec![
        ("PH +1 day", shifted(1)),
        ("PH -1 day", shifted(-1)),
        ("PH,Su", span_days().into_iter().filter(|d| file.contains(d) || d.weekday() == chrono::Weekday::Sun).collect()),
    ];
    for (expr, want) in cases {
        let oh = OpeningHours::parse(expr).expect("parses").with_context(Context::default().with_holidays(c.holidays()));
        let mut open_days: BTreeSet<NaiveDate> = BTreeSet::new();
        for r in oh.iter_range(from, to) {
            out.checks += 1;
            if r.kind == RuleKind::Open {
                let mut d = r.range.start.date();
                while d.and_hms_opt(0, 0, 0).unwrap() < r.range.end {
                    open_days.insert(d);
                    d = d.succ_opt().unwrap();
                }
            }
        }
        if open_days != want {
            let a: Vec<_> = open_days.symmetric_difference(&want).take(3).collect();
            out.bad(format!("{code}: the interval stream of `{expr}` is open on {} days, the file implies {}; differing e.g. {a:?}", open_days.len(), want.len()));
        }
    }
}

fn compare_codes(public: &Files, school: &Files, out: &mut Out) {
    let all: Vec<Country> = Country::ALL.to_vec();
    let codes: BTreeSet<&str> = all.iter().map(|c| c.iso_code()).collect();
    out.checks += 1;
    if codes.len() != all.len() {
        out.bad("ISO codes are not unique".into());
    }
    let names: BTreeSet<&str> = all.iter().map(|c| c.name()).collect();
    if names.len() != all.len() {
        out.bad("country names are not unique".into());
    }
    for c in &all {
        out.checks += 1;
        match c.iso_code().parse::<Country>() {
            Ok(p) if p == *c => {}
            other => out.bad(format!("{:?}.iso_code() = {:?} parses to {other:?}", c, c.iso_code())),
        }
        if c.iso_code().len() != 2 || !c.iso_code().bytes().all(|b| b.is_ascii_uppercase()) {
            out.bad(format!("{c:?}: ISO code {:?} is not two upper-case letters", c.iso_code()));
        }
        if format!("{c}") != c.name() {
            out.bad(format!("{c:?}: Display differs from name()"));
        }
    }
    // every region of the data files is a country; every country with data is in the files (a
    // country may legitimately have no school holidays listed)
    for region in public.keys().chain(school.keys()) {
        out.checks += 1;
        if !codes.contains(region.as_str()) {
            out.bad(format!("data files list region {region:?} which is not a supported country"));
        }
    }
    for c in &codes {
        out.checks += 1;
        if !public.contains_key(*c) {
            out.bad(format!("country {c} has no public holidays in the data file"));
        }
    }
    // anything else is rejected: every string of length <= 3 over [A-Za-z ] and near-misses
    let alphabet: Vec<u8> = (b'A'..=b'Z').chain(b'a'..=b'z').chain([b' ', b'-', b'0']).collect();
    let mut buf = Vec::new();
    let mut rejected = 0u64;
    for len in 0..=3usize {
        let mut idx = vec![0usize; len];
        loop {
            buf.clear();
            buf.extend(idx.iter().map(|i| alphabet[*i]));
            let s = std::str::from_utf8(&buf).unwrap();
            out.checks += 1;
            let r = s.parse::<Country>();
            if codes.contains(s) {
                if r.is_err() {
                    out.bad(format!("code {s:?} rejected"));
                }
            } else if r.is_ok() {
                out.bad(format!("{s:?} is not a country code but parses to {:?}", r.ok()));
            } else {
                rejected += 1;
            }
            // next
            let mut k = len;
            loop {
                if k == 0 {
                    break;
                }
                k -= 1;
                idx[k] += 1;
                if idx[k] < alphabet.len() {
                    break;
                }
                idx[k] = 0;
                if k == 0 {
                    k = usize::MAX;
                    break;
                }
            }
            if len == 0 || k == usize::MAX {
                break;
            }
        }
    }
    for c in &codes {
        let full_width: String = c.chars().map(|ch| char::from_u32(ch as u32 - 'A' as u32 + 0xFF21).unwrap_or(ch)).collect();
        for near in [
            format!(" {c}"), format!("{c} "), c.to_lowercase(), format!("{c}\0"), format!("{c}{c}"), format!("\u{feff}{c}"),
            format!("{c}A"), format!("{c}\n"), format!("{c}\u{200b}"), format!("{c}-"), format!("{c}-XX"), format!("{c}_{c}"), format!("{c};"), full_width,
            format!("{}{}", &c[..1], &c[1..].to_lowercase()), format!("{}.{}", &c[..1], &c[1..]),
            // letters of other scripts whose code points end in the same byte as the code's letters
            c.chars().map(|ch| char::from_u32(0x100 + ch as u32).unwrap_or(ch)).collect::<String>(),
            c.chars().map(|ch| char::from_u32(0x400 + ch as u32).unwrap_or(ch)).collect::<String>(),
            c.chars().map(|ch| char::from_u32(0x1E00 + ch as u32).unwrap_or(ch)).collect::<String>(),
            format!("{}{}", &c[..1], char::from_u32(0x100 + c.as_bytes()[1] as u32).unwrap_or('x')),
        ] {
            out.checks += 1;
            if near.parse::<Country>().is_ok() {
                out.bad(format!("near-miss {near:?} accepted"));
            } else {
                rejected += 1;
            }
        }
    }
    let _ = rejected;
}

/// the same country asked for very many times (counters, promotion thresholds), and countries inferred from coordinates
fn compare_repeats_and_coords(public: &Files, school: &Files, out: &mut Out) {
    use opening_hours::localization::Coordinates;
    let dg = |c: Country| -> (Vec<NaiveDate>, Vec<NaiveDate>) {
        let h = c.holidays();
        (h.get_public().iter().collect(), h.get_school().iter().collect())
    };
    let empty = BTreeSet::new();
    for c in [Country::FR, Country::US, Country::ZW] {
        let want: (Vec<NaiveDate>, Vec<NaiveDate>) = (public.get(c.iso_code()).unwrap_or(&empty).iter().copied().collect(), school.get(c.iso_code()).unwrap_or(&empty).iter().copied().collect());
        let mut kept = Vec::new();
        for i in 0..70_000u32 {
            let h = c.holidays();
            if i % 4096 == 0 || i.is_power_of_two() || i > 69_990 {
                out.checks += 1;
                if dg(c) != want {
                    out.bad(format!("{}: after {i} requests the calendars differ from the file", c.iso_code()));
                    break;
                }
            }
            if i % 1000 == 0 {
                kept.push(h);
            }
        }
        for (k, h) in kept.iter().enumerate() {
            out.checks += 1;
            if h.get_public().iter().collect::<Vec<_>>() != want.0 {
                out.bad(format!("{}: the calendar handed out at request {} changed afterwards", c.iso_code(), k * 1000));
                break;
            }
        }
    }
    // a country inferred from coordinates gets that country's calendars
    for (lat, lon, code) in [(48.8566, 2.3522, "FR"), (52.52, 13.405, "DE"), (40.7128, -74.006, "US"), (35.6762, 139.6503, "JP"), (-33.8688, 151.2093, "AU"), (51.5074, -0.1278, "GB"), (-23.5505, -46.6333, "BR"), (55.6761, 12.5683, "DK"), (19.4326, -99.1332, "MX"), (-26.2041, 28.0473, "ZA"), (64.1466, -21.9426, "IS"), (52.3676, 4.9041, "NL"),
        // supported countries that the boundaries table nests inside a bigger region
        (60.0973, 19.9348, "AX"), (18.4655, -66.1057, "PR"), (64.1814, -51.6941, "GL"), (62.0079, -6.79, "FO"), (22.3193, 114.1694, "HK"), (36.1408, -5.3536, "GI"), (49.1868, -2.1062, "JE"), (49.4555, -2.5368, "GG"), (54.1523, -4.4861, "IM"), (78.2232, 15.6267, "SJ")] {
        out.checks += 1;
        let Some(co) = Coordinates::new(lat, lon) else { continue };
        let ctx = Context::from_coords(co);
        let got: (Vec<NaiveDate>, Vec<NaiveDate>) = (ctx.holidays.get_public().iter().collect(), ctx.holidays.get_school().iter().collect());
        let want: (Vec<NaiveDate>, Vec<NaiveDate>) = (public.get(code).unwrap_or(&empty).iter().copied().collect(), school.get(code).unwrap_or(&empty).iter().copied().collect());
        if Country::try_from_coords(co).map(|c| c.iso_code()) != Some(code) {
            out.bad(format!("coordinates ({lat}, {lon}) are inferred as {:?}, expected {code}", Country::try_from_coords(co)));
        } else if got != want {
            out.bad(format!("Context::from_coords({lat}, {lon}) carries calendars that differ from {code}'s in the files"));
        }
    }
}

/// One parsed `PH` / `SH` value localised for every country by `clone().with_context(..)` -- what an application does
/// that parses an expression once -- and asked about the same day for one country after another: each derived
/// value must see its own country's dates (whatever the values share through the common parse must not depend on
/// the calendars).
fn compare_selectors_shared_parse(public: &Files, school: &Files, thorough: bool, out: &mut Out) {
    let empty = BTreeSet::new();
    let countries = order("S1_first_country_first");
    for (expr, files) in [("PH", public), ("SH", school)] {
        let base = OpeningHours::parse(expr).expect("PH/SH parse");
        let localised: Vec<(Country, OpeningHours)> = countries.iter().map(|c| (*c, base.clone().with_context(Context::default().with_holidays(c.holidays())))).collect();
        // days: every day of one year (thorough: of three), plus every date some country lists in 2024..2026
        let mut days: BTreeSet<NaiveDate> = BTreeSet::new();
        for y in if thorough { vec![2023, 2024, 2025] } else { vec![2024] } {
            let mut d = NaiveDate::from_ymd_opt(y, 1, 1).unwrap();
            while d.year() == y {
                days.insert(d);
                d = d.succ_opt().unwrap();
            }
        }
        for f in files.values() {
            days.extend(f.iter().filter(|d| (2024..=2026).contains(&d.year())).copied());
        }
        for d in days {
            for (c, oh) in &localised {
                out.checks += 1;
                let file = files.get(c.iso_code()).unwrap_or(&empty);
                let open = oh.state(d.and_hms_opt(12, 0, 0).unwrap()) == RuleKind::Open;
                if open != file.contains(&d) {
                    out.bad(format!("{}: `{expr}` parsed once and localised per country is {} on {d}, file says listed={}", c.iso_code(), if open { "open" } else { "closed" }, file.contains(&d)));
                    return;
                }
            }
        }
        // and the base value, which has no calendar, never sees a holiday
        out.checks += 1;
        if base.state(NaiveDate::from_ymd_opt(2024, 12, 25).unwrap().and_hms_opt(12, 0, 0).unwrap()) == RuleKind::Open {
            out.bad(format!("`{expr}` without any calendar is open on 2024-12-25"));
        }
    }
}

/// One context value that gets a country's calendars attached, then the next country's, and so on (an application
/// that follows a user across borders, or re-uses one configured context): after each attachment `PH` / `SH` and
/// the attached calendars themselves must be the new country's, whatever was attached before -- in particular
/// nothing of a previous country's school calendar may survive in a country that has none.
fn compare_reattached_calendars(name: &str, public: &Files, school: &Files, thorough: bool, out: &mut Out) {
    let empty = BTreeSet::new();
    let ph = OpeningHours::parse("PH").expect("PH parses");
    let sh = OpeningHours::parse("SH").expect("SH parses");
    let years = if thorough { 1990..=2085 } else { 2023..=2026 };
    let mut ctx = Context::default();
    let mut prev: Option<Country> = None;
    // the order of the schedule, then once more backwards: every country follows two different ones
    let fwd = order(name);
    for c in fwd.iter().chain(fwd.iter().rev()) {
        ctx = ctx.with_holidays(c.holidays());
        let (fp, fs) = (public.get(c.iso_code()).unwrap_or(&empty), school.get(c.iso_code()).unwrap_or(&empty));
        out.checks += 2;
        if !ctx.holidays.get_public().iter().eq(fp.iter().copied()) || !ctx.holidays.get_school().iter().eq(fs.iter().copied()) {
            out.bad(format!("{}: calendars of a context that had {:?} attached before differ from the data files", c.iso_code(), prev.map(|p| p.iso_code())));
            return;
        }
        let mut days: BTreeSet<NaiveDate> = BTreeSet::new();
        for code in [Some(*c), prev].into_iter().flatten().map(|c| c.iso_code()) {
            for f in [public, school] {
                days.extend(f.get(code).unwrap_or(&empty).iter().filter(|d| years.contains(&d.year())).copied());
            }
        }
        let (oph, osh) = (ph.clone().with_context(ctx.clone()), sh.clone().with_context(ctx.clone()));
        for d in days {
            for (expr, oh, file) in [("PH", &oph, fp), ("SH", &osh, fs)] {
                out.checks += 1;
                let open = oh.state(d.and_hms_opt(12, 0, 0).unwrap()) == RuleKind::Open;
                if open != file.contains(&d) {
                    out.bad(format!("{}: `{expr}` under a context that had {:?} attached before is {} on {d}, file says listed={}", c.iso_code(), prev.map(|p| p.iso_code()), if open { "open" } else { "closed" }, file.contains(&d)));
                    return;
                }
            }
        }
        prev = Some(*c);
    }
}

fn order(name: &str) -> Vec<Country> {
    let mut v: Vec<Country> = Country::ALL.to_vec();
    v.sort_by_key(|c| c.iso_code());
    match name {
        "S2_last_country_first" => v.reverse(),
        "S3_selector_first" => {
            let n = v.len();
            v.rotate_left(n / 2)
        }
        _ => {}
    }
    v
}

fn schedule(name: &str, public: &Files, school: &Files, thorough: bool) -> (u64, Vec<String>) {
    let mut out = Out::default();
    match name {
        "S3_selector_first" => {
            for c in order(name) {
                compare_selectors(c, public, school, thorough, &mut out);
            }
            for c in order(name) {
                compare_country(c, public, school, false, &mut out);
            }
        }
        "S4_two_os_threads_race" => {
            let v = order(name);
            let (a, b) = v.split_at(v.len() / 2);
            let (mut o1, mut o2) = (Out::default(), Out::default());
            std::thread::scope(|s| {
                s.spawn(|| {
                    for c in a {
                        compare_country(*c, public, school, false, &mut o1);
                    }
                });
                s.spawn(|| {
                    for c in b.iter().rev() {
                        compare_country(*c, public, school, false, &mut o2);
                    }
                });
            });
            out.checks = o1.checks + o2.checks;
            out.mismatches = o1.mismatches.into_iter().chain(o2.mismatches).collect();
        }
        _ => {
            for c in order(name) {
                compare_country(c, public, school, thorough, &mut out);
            }
            for (i, c) in order(name).into_iter().enumerate() {
                compare_selectors(c, public, school, thorough, &mut out);
                if thorough || i % 5 == 0 {
                    compare_selector_variants(c, public, &mut out);
                }
            }
            compare_codes(public, school, &mut out);
            compare_selectors_shared_parse(public, school, thorough, &mut out);
            compare_reattached_calendars(name, public, school, thorough, &mut out);
            if name == "S1_first_country_first" {
                compare_repeats_and_coords(public, school, &mut out);
            }
        }
    }
    (out.checks, out.mismatches)
}

/// run `f` in a forked child (fresh process: nothing decoded yet) and return its JSON result
fn in_child(f: impl FnOnce() -> Value) -> Result<Value, String> {
    let mut fds = [0i32; 2];
    if unsafe { libc::pipe(fds.as_mut_ptr()) } != 0 {
        return Err("pipe".into());
    }
    let pid = unsafe { libc::fork() };
    if pid < 0 {
        return Err("fork".into());
    }
    if pid == 0 {
        unsafe { libc::close(fds[0]) };
        let mut o = unsafe { std::fs::File::from_raw_fd(fds[1]) };
        let r = simcore::catch(f);
        let v = match r {
            Ok(v) => v,
            Err(m) => json!({"panic": m}),
        };
        let _ = o.write_all(v.to_string().as_bytes());
        drop(o);
        unsafe { libc::_exit(0) };
    }
    unsafe { libc::close(fds[1]) };
    let mut i = unsafe { std::fs::File::from_raw_fd(fds[0]) };
    let mut s = String::new();
    let _ = i.read_to_string(&mut s);
    let mut st = 0;
    unsafe { libc::waitpid(pid, &mut st, 0) };
    if !(libc::WIFEXITED(st) && libc::WEXITSTATUS(st) == 0) {
        return Ok(json!({"panic": format!("the process died (status {st})")}));
    }
    serde_json::from_str(&s).map_err(|e| format!("bad child output: {e}"))
}

fn main() {
    let args: Vec<String> = std::env::args().collect();
    let tier = if args.get(1).map(|s| s.as_str()) == Some("replay") {
        let v = simcore::read_json(std::path::Path::new(args.get(2).map(|s| s.as_str()).unwrap_or("")));
        v["scenario"]["tier"].as_str().unwrap_or("quick").to_string()
    } else {
        simcore::tier(args.get(1).map(|s| s.as_str()))
    };
    simcore::silence_panics();
    let thorough = tier == "thorough";
    let t0 = std::time::Instant::now();
    let public = load("/repo/opening-hours/data/holidays_public.txt");
    let school = load("/repo/opening-hours/data/holidays_school.txt");
    let names = ["S1_first_country_first", "S2_last_country_first", "S3_selector_first", "S4_two_os_threads_race"];
    let mut total_checks = 0u64;
    let mut per = Vec::new();
    let mut violation: Option<(String, String)> = None;
    for n in names {
        let r = in_child(|| {
            let (checks, mism) = schedule(n, &public, &school, thorough);
            json!({"checks": checks, "mismatches": mism})
        });
        match r {
            Err(e) => {
                println!("harness error: {e}");
                std::process::exit(2)
            }
            Ok(v) => {
                if let Some(p) = v.get("panic") {
                    violation.get_or_insert((n.to_string(), format!("panic: {p}")));
                } else {
                    total_checks += v["checks"].as_u64().unwrap_or(0);
                    if let Some(m) = v["mismatches"].as_array().and_then(|a| a.first()) {
                        violation.get_or_insert((n.to_string(), m.as_str().unwrap_or("").to_string()));
                    }
                }
                per.push(json!({"schedule": n, "result": v}));
            }
        }
    }
    // S4 races two real OS threads (a smoke schedule; the controlled racing schedules are shuttle's): what it finds
    // is real but whether a re-execution shows it again is up to the machine. A replay of an S4 finding therefore
    // re-runs that schedule until the mismatch shows (at most 40 times).
    if args.get(1).map(|s| s.as_str()) == Some("replay") && violation.is_none() {
        let v = simcore::read_json(std::path::Path::new(args.get(2).map(|s| s.as_str()).unwrap_or("")));
        if v["scenario"]["schedule"].as_str() == Some("S4_two_os_threads_race") {
            for _ in 0..40 {
                if let Ok(r) = in_child(|| {
                    let (checks, mism) = schedule("S4_two_os_threads_race", &public, &school, thorough);
                    json!({"checks": checks, "mismatches": mism})
                }) {
                    if let Some(p) = r.get("panic") {
                        violation = Some(("S4_two_os_threads_race".to_string(), format!("panic: {p}")));
                    } else if let Some(m) = r["mismatches"].as_array().and_then(|a| a.first()) {
                        violation = Some(("S4_two_os_threads_race".to_string(), m.as_str().unwrap_or("").to_string()));
                    }
                }
                if violation.is_some() {
                    break;
                }
            }
        }
    }
    let wall = t0.elapsed().as_secs_f64();
    let mut exit = 0;
    let mut replays = vec![];
    if let Some((sched, detail)) = &violation {
        let path = simcore::verif_root().join("replays").join("C10-baseline.json");
        simcore::write_json(&path, &json!({"property": "C10", "class": "holiday_data_mismatch", "detail": detail, "scenario": {"engine": "c10base", "schedule": sched, "tier": tier}}));
        println!("VIOLATION property=C10 replay={}", path.display());
        println!("  class=holiday_data_mismatch schedule={sched}");
        println!("  detail: {detail}");
        if sched == "S4_two_os_threads_race" {
            println!("  note: found by the smoke schedule that races two real OS threads; the controlled (replayable) racing schedules are the shuttle part's");
        }
        replays.push(path.display().to_string());
        exit = 1;
    }
    let (lo, hi) = date_range(thorough);
    let part = json!({
        "tier": if tier == "smoke" { "quick" } else { tier.as_str() },
        "wall_s": wall,
        "violations": if violation.is_some() { 1 } else { 0 },
        "baseline": {
            "membership_and_selector_checks": total_checks,
            "schedules": per,
            "countries": Country::ALL.len(),
            "date_range_enumerated": [lo.to_string(), hi.to_string()],
            "public_dates_in_file": public.values().map(|s| s.len()).sum::<usize>(),
            "school_dates_in_file": school.values().map(|s| s.len()).sum::<usize>(),
            "exhaustive_over_countries_and_dates": violation.is_none(),
            "build": "shipped code, guard off; each schedule in its own freshly forked process",
        },
        "replays": replays,
    });
    simcore::write_json(&simcore::verif_root().join("evidence").join("C10.base.part.json"), &part);
    println!("C10 baseline tier={tier} schedules={} checks={total_checks} violations={} wall={wall:.1}s", names.len(), if violation.is_some() { 1 } else { 0 });
    std::process::exit(exit);
}
