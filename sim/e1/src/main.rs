//! Engine E1 — stream and history simulator for `compact-calendar` (property C15).
//!
//! System under test: the shipped `compact-calendar` crate (real code, no hook).
//! Stubbed: the byte streams. `SimWriter` / `SimReader` implement `io::Write` /
//! `io::Read` and inject short transfers, `Interrupted`, hard errors, `Ok(0)`,
//! disk-full and truncation according to an explicit per-call fault plan.
//! Reference model: `BTreeSet<NaiveDate>` + the fault-free byte stream.
//!
//! usage: e1 <quick|thorough|smoke> | e1 replay <file> | e1 fingerprint <runs>

mod exec;
mod gen;
mod scenario;
mod shrink;
mod streams;

use std::time::Instant;

use simcore::{json, Agg, KnownFindings, Report, Rng, Violation};

use crate::exec::{execute, RunOut};
use crate::scenario::Scenario;

const ENGINE_TAG: u64 = 0xE1;
const PROPERTY: &str = "C15";

fn run_one(seed: u64, idx: u64, tier: &str, agg: &mut Agg, known: &KnownFindings) {
    let mut rng = Rng::derive(seed, ENGINE_TAG, idx);
    let sc = gen::generate(&mut rng, tier, idx);
    let out = execute(&sc);
    record(idx, &sc, out, agg, known);
}

fn record(idx: u64, sc: &Scenario, out: RunOut, agg: &mut Agg, known: &KnownFindings) {
    let nontrivial = out.faults_fired > 0 || out.crash_points > 0;
    agg.note_run(idx, out.fp, nontrivial);
    agg.faults.merge(&out.faults);
    agg.probes.merge(&out.probes);
    agg.sim.merge(&out.sim);
    agg.states.insert(out.state_sig);
    if idx < 3 || (nontrivial && idx < 64) {
        agg.sample(idx, || json!({"scenario": sc, "fingerprint": format!("{:016x}", out.fp), "faults_fired": out.faults_fired, "crash_points": out.crash_points}), 4);
    }
    if let Some(fail) = out.fail {
        // minimise, keeping the violation class
        // The batch executes many runs per worker thread; whatever a change makes the system under test keep in
        // thread-locals or statics survives from one run to the next there. A replay file must stand on its own:
        // the run is first re-executed on a thread of its own, then minimised (every candidate on a fresh thread),
        // and the result is confirmed in a fresh process; otherwise the run is reported as generated, with a note.
        let mut note = None;
        simcore::post_processing_begins(15, known.matches(PROPERTY, &fail.class).is_none());
        let sc1 = sc.clone();
        let alone = simcore::with_timeout(move || execute(&sc1)).and_then(|o| o.fail).filter(|f| f.class == fail.class);
        let (mut min_sc, mut min_fail) = match &alone {
            Some(f) => shrink::minimise(sc, f),
            None => (sc.clone(), fail.clone()),
        };
        let engine = "e1";
        if alone.is_none() || simcore::reproduces_in_fresh_process(PROPERTY, &min_fail.class, &json!({"engine": engine, "minimised": min_sc}), idx) == Some(false) {
            (min_sc, min_fail) = (sc.clone(), fail.clone());
            if alone.is_none() || simcore::reproduces_in_fresh_process(PROPERTY, &min_fail.class, &json!({"engine": engine, "minimised": min_sc}), idx) == Some(false) {
                note = Some("not reproduced by this run alone on a fresh thread / in a fresh process: the violation depends on state the system under test kept from earlier runs of the batch (thread-local or process-wide); re-run the batch with the same VERIF_SEED to see it again");
            }
        }
        let sig = format!("{}", min_fail.class);
        if let Some(what) = known.matches(PROPERTY, &sig) {
            let e = agg.known.entry(sig).or_insert((0, what.to_string()));
            e.0 += 1;
        } else {
            agg.violations.insert(
                idx,
                Violation {
                    run: idx,
                    class: min_fail.class.clone(),
                    detail: format!("step {}: {}", min_fail.step, min_fail.detail),
                    scenario: json!({"engine": "e1", "minimised": min_sc, "original_ops": sc.ops.len(), "minimised_ops": min_sc.ops.len(), "note": note}),
                },
            );
        }
    }
}

fn main() {
    let args: Vec<String> = std::env::args().collect();
    let cmd = args.get(1).map(|s| s.as_str()).unwrap_or("quick");
    simcore::silence_panics();
    match cmd {
        "replay" => {
            let path = args.get(2).unwrap_or_else(|| {
                eprintln!("usage: e1 replay <file>");
                std::process::exit(2)
            });
            std::process::exit(replay(path));
        }
        "fingerprint" => {
            // determinism self-test helper: prints one line per run
            let runs: u64 = args.get(2).and_then(|s| s.parse().ok()).unwrap_or(256);
            let seed = simcore::verif_seed();
            let tier = args.get(3).map(|s| s.as_str()).unwrap_or("quick");
            for idx in 0..runs {
                let mut rng = Rng::derive(seed, ENGINE_TAG, idx);
                let sc = gen::generate(&mut rng, tier, idx);
                let out = execute(&sc);
                println!("{idx} {:016x} {}", out.fp, out.fail.as_ref().map(|f| f.class.as_str()).unwrap_or("ok"));
            }
        }
        _ => {
            let tier = simcore::tier(Some(cmd));
            std::process::exit(batch(&tier));
        }
    }
}

fn batch(tier: &str) -> i32 {
    let seed = simcore::verif_seed();
    let runs = simcore::env_u64(
        "VERIF_RUNS",
        match tier {
            "thorough" => 20_000_000,
            "smoke" => 5_000,
            _ => 200_000,
        },
    );
    let known = KnownFindings::load();
    let t0 = Instant::now();
    let mut agg = simcore::par_batch_watched(
        runs,
        simcore::workers(),
        4,
        |idx, agg| run_one(seed, idx, tier, agg, &known),
        |idx| {
            let mut rng = Rng::derive(seed, ENGINE_TAG, idx);
            let sc = gen::generate(&mut rng, tier, idx);
            simcore::report_hang(PROPERTY, seed, idx, json!({"engine": "e1", "minimised": sc}))
        },
    );
    agg.recheck_determinism(|idx| {
        let mut rng = Rng::derive(seed, ENGINE_TAG, idx);
        execute(&gen::generate(&mut rng, tier, idx)).fp
    });
    agg.faults.declare(streams::FAULT_KINDS);
    agg.probes.declare(exec::PROBES);
    let wall = t0.elapsed().as_secs_f64();
    let rep = Report {
        property: PROPERTY,
        tier,
        seed,
        level: "exploration",
        rule: "Each run draws (from its own PRNG stream) a swarm configuration (year span, history length, enabled fault kinds and rates) and a history of operations on a CompactCalendar checked step by step against a BTreeSet model; serialization operations go through simulated streams with an explicit per-call fault plan (short transfer, Interrupted, hard error, Ok(0), disk-full, truncation) and most runs end with an exhaustive crash-point sweep (every prefix length of the concatenated stream). A run is non-trivial iff at least one fault actually fired inside a serialize/deserialize call or at least one crash point was replayed; distinct = distinct event-log fingerprints (FNV-1a over every operation, argument, injected fault and observed result) among non-trivial runs.".into(),
        components: json!({
            "real": ["compact-calendar (CompactCalendar, CompactYear, CompactMonth) as shipped, guard off", "std::io::Read::read_exact / Write::write_all", "chrono::NaiveDate"],
            "stub": ["byte streams: SimWriter (io::Write) and SimReader (io::Read); there is no disk or socket"],
        }),
        assumptions: vec![
            "std's read_exact/write_all retry semantics are the trusted base".into(),
            "bit flips in stored bytes are deliberately not injected: the format has no checksum and the property promises none".into(),
            "a clean batch is evidence over the sampled histories and fault plans, not a proof".into(),
        ],
        extra: json!({
            "state_measure": "distinct (window-length bucket, member-count bucket, first_after branches taken, fault kinds fired, crash-offset classes visited) tuples",
            "crash_points_exhaustive_per_stream": true,
        }),
        wall_s: wall,
        exhaustive: None,
    };
    simcore::finish(rep, agg)
}

fn replay(path: &str) -> i32 {
    let v = simcore::read_json(std::path::Path::new(path));
    let sc_v = v["scenario"].get("minimised").cloned().unwrap_or_else(|| v["scenario"].clone());
    let sc: Scenario = match serde_json::from_value(sc_v) {
        Ok(s) => s,
        Err(e) => {
            eprintln!("harness error: replay file does not contain an e1 scenario: {e}");
            return 2;
        }
    };
    let want = v["class"].as_str().unwrap_or("");
    let sc2 = sc.clone();
    let Some(out) = simcore::with_timeout(move || execute(&sc2)) else {
        println!("VIOLATION property={PROPERTY} replay={path}");
        println!("  class=hang detail: the replayed run did not return within {} s", simcore::run_timeout().as_secs());
        return 1;
    };
    match out.fail {
        Some(f) => {
            println!("VIOLATION property={PROPERTY} replay={path}");
            println!("  class={} step={} detail: {}", f.class, f.step, f.detail);
            if !want.is_empty() && want != f.class {
                println!("  note: recorded class was {want}");
            }
            1
        }
        None => {
            println!("replay of {path}: no violation (recorded class: {want})");
            0
        }
    }
}
