//! Minimisation of a failing scenario: ddmin over operations, then removal and
//! simplification of faults, then argument shrinking — always keeping the same
//! violation class.

use crate::exec::{execute, Fail};
use crate::scenario::{Item, Op, Plan, Scenario, D};

fn still_fails(sc: &Scenario, class: &str) -> Option<Fail> {
    if simcore::minimise_expired() {
        return None;
    }
    let sc = sc.clone();
    simcore::with_timeout(move || execute(&sc))?.fail.filter(|f| f.class == class)
}

fn plans_mut(op: &mut Op) -> Vec<&mut Plan> {
    match op {
        Op::Year(_, w, r) => vec![w, r],
        Op::RoundTrip { w, r, .. } => vec![w, r],
        Op::Concat { w, r, .. } => vec![w, r],
        _ => vec![],
    }
}

fn date_mut(op: &mut Op) -> Option<&mut D> {
    match op {
        Op::Insert(d) | Op::InsertViaYear(d) | Op::SnapQuery(_, d) | Op::Contains(d) | Op::FirstAfter(d) | Op::Year(d, _, _) => Some(d),
        _ => None,
    }
}

pub fn minimise(sc: &Scenario, fail: &Fail) -> (Scenario, Fail) {
    let class = fail.class.clone();
    let mut best = sc.clone();
    let mut best_fail = fail.clone();
    // budget: minimisation must terminate quickly even for slow scenarios
    let mut budget = 4000u32;
    let try_sc = |cand: &Scenario, best: &mut Scenario, best_fail: &mut Fail, budget: &mut u32| -> bool {
        if *budget == 0 {
            return false;
        }
        *budget -= 1;
        if let Some(f) = still_fails(cand, &class) {
            *best = cand.clone();
            *best_fail = f;
            true
        } else {
            false
        }
    };

    // 1. drop everything after the failing step
    if best_fail.step + 1 < best.ops.len() {
        let mut cand = best.clone();
        cand.ops.truncate(best_fail.step + 1);
        try_sc(&cand, &mut best, &mut best_fail, &mut budget);
    }
    // 2. ddmin over operations
    {
        let cfg = best.config.clone();
        let ops = best.ops.clone();
        let mut last: Option<(Scenario, Fail)> = None;
        let min_ops = simcore::ddmin(&ops, |cand| {
            if budget == 0 {
                return false;
            }
            budget -= 1;
            let sc = Scenario { config: cfg.clone(), ops: cand.to_vec() };
            match still_fails(&sc, &class) {
                Some(f) => {
                    last = Some((sc, f));
                    true
                }
                None => false,
            }
        });
        if let Some((s, f)) = last {
            if s.ops.len() == min_ops.len() {
                best = s;
                best_fail = f;
            } else {
                let sc = Scenario { config: cfg, ops: min_ops };
                if let Some(f) = still_fails(&sc, &class) {
                    best = sc;
                    best_fail = f;
                }
            }
        }
    }
    // 3. simplify fault plans
    let mut progress = true;
    while progress && budget > 0 {
        progress = false;
        for i in 0..best.ops.len() {
            let n_plans = plans_mut(&mut best.ops[i].clone()).len();
            for pi in 0..n_plans {
                // whole plan away
                let mut cand = best.clone();
                {
                    let mut ps = plans_mut(&mut cand.ops[i]);
                    if ps[pi].is_clean() {
                        continue;
                    }
                    *ps[pi] = Plan::default();
                }
                if try_sc(&cand, &mut best, &mut best_fail, &mut budget) {
                    progress = true;
                    continue;
                }
                // single pieces
                let n_acts = plans_mut(&mut best.ops[i].clone())[pi].acts.len();
                for ai in (0..n_acts).rev() {
                    let mut cand = best.clone();
                    {
                        let mut ps = plans_mut(&mut cand.ops[i]);
                        if ai < ps[pi].acts.len() {
                            ps[pi].acts.remove(ai);
                        }
                    }
                    if try_sc(&cand, &mut best, &mut best_fail, &mut budget) {
                        progress = true;
                    }
                }
                for what in 0..2 {
                    let mut cand = best.clone();
                    {
                        let mut ps = plans_mut(&mut cand.ops[i]);
                        if what == 0 {
                            if ps[pi].max_chunk.is_none() {
                                continue;
                            }
                            ps[pi].max_chunk = None;
                        } else {
                            if ps[pi].capacity.is_none() {
                                continue;
                            }
                            ps[pi].capacity = None;
                        }
                    }
                    if try_sc(&cand, &mut best, &mut best_fail, &mut budget) {
                        progress = true;
                    }
                }
            }
            // fewer items in a concatenation / sweep
            let n_items = match &best.ops[i] {
                Op::Concat { items, .. } | Op::CrashSweep { items, .. } => items.len(),
                _ => 0,
            };
            for ii in (0..n_items).rev() {
                let mut cand = best.clone();
                match &mut cand.ops[i] {
                    Op::Concat { items, .. } | Op::CrashSweep { items, .. } => {
                        if items.len() > 1 && ii < items.len() {
                            items.remove(ii);
                        } else {
                            continue;
                        }
                    }
                    _ => {}
                }
                if try_sc(&cand, &mut best, &mut best_fail, &mut budget) {
                    progress = true;
                }
            }
            // snapshots -> current
            let mut cand = best.clone();
            let mut changed = false;
            match &mut cand.ops[i] {
                Op::Concat { items, .. } | Op::CrashSweep { items, .. } => {
                    for it in items.iter_mut() {
                        if matches!(it, Item::Snap(_)) {
                            *it = Item::Cur;
                            changed = true;
                        }
                    }
                }
                _ => {}
            }
            if changed && try_sc(&cand, &mut best, &mut best_fail, &mut budget) {
                progress = true;
            }
            // a sweep over all offsets -> only the failing offset is not known
            // here; keep the sweep but drop the chunk limit
            let mut cand = best.clone();
            if let Op::CrashSweep { chunk, .. } = &mut cand.ops[i] {
                if chunk.is_some() {
                    *chunk = None;
                    if try_sc(&cand, &mut best, &mut best_fail, &mut budget) {
                        progress = true;
                    }
                }
            }
        }
    }
    // 4. shrink dates towards 2000-01-01 (year first, then month, then day)
    for i in 0..best.ops.len() {
        let Some(cur) = date_mut(&mut best.ops[i].clone()).map(|d| *d) else { continue };
        let cands = [D(2000, cur.1, cur.2), D(cur.0, 1, cur.2), D(cur.0, cur.1, 1), D(2000, 1, 1), D(2001, cur.1, cur.2), D(cur.0, 1, 1)];
        for c in cands {
            if budget == 0 {
                break;
            }
            let now = date_mut(&mut best.ops[i].clone()).map(|d| *d).unwrap();
            if c == now || c.date().is_none() {
                continue;
            }
            // only move towards simpler values
            let simpler = (c.0 - 2000).abs() <= (now.0 - 2000).abs() && c.1 <= now.1 && c.2 <= now.2;
            if !simpler {
                continue;
            }
            let mut cand = best.clone();
            *date_mut(&mut cand.ops[i]).unwrap() = c;
            try_sc(&cand, &mut best, &mut best_fail, &mut budget);
        }
    }
    best.config = format!("minimised from: {}", sc.config);
    (best, best_fail)
}
