//! Seeded generator of E1 scenarios (swarm style: every run draws its own
//! sizes, workload mix and enabled fault kinds).

use chrono::{Datelike, NaiveDate};
use simcore::Rng;

use crate::scenario::{Act, ErrK, Item, Op, Plan, Scenario, D};

struct Cfg {
    base_year: i32,
    span: i32,
    len: usize,
    // per-call probabilities are num/64
    p_short: u64,
    p_eintr: u64,
    p_hard: u64,
    p_zero: u64,
    p_chunk: u64,
    p_capacity: u64,
    faults: bool,
}

fn min_year() -> i32 {
    NaiveDate::MIN.year()
}
fn max_year() -> i32 {
    NaiveDate::MAX.year()
}

fn gen_date(rng: &mut Rng, cfg: &Cfg, known: &[D]) -> D {
    // reuse / neighbour of an already inserted date
    if !known.is_empty() && rng.chance(1, 4) {
        let d = *rng.pick(known);
        return match rng.below(4) {
            0 => d,
            1 => d.date().and_then(|x| x.succ_opt()).map(D::of).unwrap_or(d),
            2 => d.date().and_then(|x| x.pred_opt()).map(D::of).unwrap_or(d),
            _ => D(d.0, (rng.below(12) + 1) as u32, d.2.min(28)),
        };
    }
    let year = match rng.below(16) {
        0 => cfg.base_year,
        1 => cfg.base_year + cfg.span,
        2 => cfg.base_year - 1,
        3 => cfg.base_year + cfg.span + 1,
        4 => cfg.base_year - rng.range(1, 5) as i32,
        5 => cfg.base_year + cfg.span + rng.range(1, 5) as i32,
        _ => cfg.base_year + rng.range(0, cfg.span as i64) as i32,
    }
    .clamp(min_year(), max_year());
    let month = match rng.below(8) {
        0 => 1,
        1 => 2,
        2 => 12,
        3 => 11,
        _ => rng.range(1, 12) as u32,
    };
    let day = match rng.below(10) {
        0 => 1,
        1 => 28,
        2 => 29,
        3 => 30,
        4 => 31,
        5 => 2,
        _ => rng.range(1, 31) as u32,
    };
    // clamp to a valid day of that month
    let mut d = day;
    while NaiveDate::from_ymd_opt(year, month, d).is_none() && d > 1 {
        d -= 1;
    }
    if NaiveDate::from_ymd_opt(year, month, d).is_none() {
        // outside chrono's range at the extreme years: fall back to a safe date
        return D(year.clamp(min_year() + 1, max_year() - 1), month, d.min(28));
    }
    D(year, month, d)
}

fn gen_query(rng: &mut Rng, cfg: &Cfg, known: &[D]) -> D {
    // aliases of a member: the same day 2^k years away (an index narrowed to 8 / 16 bits wraps exactly there), or
    // the window length away
    if !known.is_empty() && rng.chance(1, 12) {
        let d = *rng.pick(known);
        let dy = *rng.pick(&[128, 256, 32_768, 65_536, 131_072, cfg.span + 1, 2 * (cfg.span + 1)]) * if rng.chance(1, 2) { 1 } else { -1 };
        let y = d.0 as i64 + dy as i64;
        if y > min_year() as i64 && y < max_year() as i64 {
            return D(y as i32, d.1, d.2.min(28));
        }
    }
    match rng.below(10) {
        // far outside the window on either side
        0 => D((cfg.base_year - rng.range(2, 3000) as i32).clamp(min_year() + 1, max_year() - 1), rng.range(1, 12) as u32, rng.range(1, 28) as u32),
        1 => D((cfg.base_year + cfg.span + rng.range(2, 3000) as i32).clamp(min_year() + 1, max_year() - 1), rng.range(1, 12) as u32, rng.range(1, 28) as u32),
        2 => D(cfg.base_year.clamp(min_year() + 1, max_year() - 1), 1, 1),
        3 => D((cfg.base_year + cfg.span).clamp(min_year() + 1, max_year() - 1), 12, 31),
        4 => D((cfg.base_year - 1).clamp(min_year() + 1, max_year() - 1), 12, 31),
        _ => gen_date(rng, cfg, known),
    }
}

fn est_calls(years: i32) -> u32 {
    2 + 12 * years.max(0) as u32
}

fn gen_plan(rng: &mut Rng, cfg: &Cfg, calls: u32, total_bytes: u64, reader: bool) -> Plan {
    let mut p = Plan::default();
    if !cfg.faults {
        return p;
    }
    let calls = calls.max(2);
    // a handful of fault sites, biased to the header (calls 0..3), to the
    // last calls and to back-to-back placement
    let n_sites = rng.below(5) as u32;
    let mut next_adjacent: Option<u32> = None;
    for _ in 0..n_sites {
        let idx = if let Some(a) = next_adjacent.take() {
            a
        } else {
            match rng.below(6) {
                0 => rng.below(3) as u32,
                1 => calls.saturating_sub(1 + rng.below(3) as u32),
                _ => rng.below((calls as u64 * 3 / 2).max(1)) as u32,
            }
        };
        if p.acts.iter().any(|(i, _)| *i == idx) {
            continue;
        }
        let total = cfg.p_short + cfg.p_eintr + cfg.p_hard + cfg.p_zero;
        if total == 0 {
            break;
        }
        let x = rng.below(total);
        let act = if x < cfg.p_short {
            Act::Short(rng.range(1, 7) as u32)
        } else if x < cfg.p_short + cfg.p_eintr {
            // often followed directly by a short transfer or another EINTR
            if rng.chance(1, 2) {
                next_adjacent = Some(idx + 1);
            }
            Act::Eintr
        } else if x < cfg.p_short + cfg.p_eintr + cfg.p_hard {
            Act::Hard(*rng.pick(&[ErrK::Other, ErrK::WouldBlock, ErrK::BrokenPipe, ErrK::StorageFull, ErrK::TimedOut]))
        } else {
            Act::Zero
        };
        p.acts.push((idx, act));
    }
    p.acts.sort_by_key(|(i, _)| *i);
    if rng.below(64) < cfg.p_chunk {
        p.max_chunk = Some(rng.range(1, 5) as u32);
    }
    if rng.below(64) < cfg.p_capacity {
        // disk full / truncation somewhere inside (or exactly at the end of) the stream
        let c = match rng.below(5) {
            0 => total_bytes,
            1 => rng.below(13.min(total_bytes + 1)),
            _ => rng.below(total_bytes + 1),
        };
        p.capacity = Some(c);
    }
    if reader {
        // one reader in eight is a real std adaptor stacked on the simulated reader; one in ten answers a call made
        // after the stream was drained with WouldBlock
        if rng.chance(1, 6) {
            p.flavour = rng.range(1, 7) as u8;
            p.cut = rng.below(total_bytes.max(1) + 1).min(u32::MAX as u64) as u32;
        }
        if rng.chance(1, 10) {
            p.strict_end = true;
        }
    } else if rng.chance(1, 6) {
        p.gather = true;
    }
    p
}

pub fn generate(rng: &mut Rng, tier: &str, _idx: u64) -> Scenario {
    let thorough = tier == "thorough";
    // --- swarm configuration ---
    // swarm, sizes: one history in 20 000 (2 000 in the thorough tier) has a huge year window; every other one of
    // those spans the WHOLE domain of dates, NaiveDate::MIN's year to NaiveDate::MAX's (a 25 MB calendar)
    let mut whole_domain = false;
    let span = match rng.below(if thorough { 2000 } else { 20_000 }) {
        0 => {
            whole_domain = rng.chance(1, 2);
            if whole_domain {
                max_year() - min_year()
            } else {
                260_000
            }
        }
        1..=3 => 5_000,
        4..=13 => {
            // sizes around powers of two (ring-buffer capacities, bit tricks)
            let k = rng.range(1, 12) as u32;
            ((1i32 << k) + rng.range(-1, 1) as i32).max(0)
        }
        14..=40 => rng.range(0, 300) as i32,
        _ => *rng.pick(&[0, 0, 1, 1, 2, 2, 5, 5, 12, 50, 400]),
    };
    let base_year = match rng.below(12) {
        0 => 1900,
        1 => 0,
        2 => -1,
        3 => -5,
        4 => 9999,
        5 => 1,
        6 => min_year(),
        7 => max_year() - span,
        8 => -(span / 2),
        _ => 1990 + rng.range(0, 60) as i32,
    }
    .clamp(min_year(), max_year() - span);
    let faults = !rng.chance(1, 4) && !whole_domain;
    let rate = |rng: &mut Rng| -> u64 { *rng.pick(&[0, 0, 4, 16, 32]) };
    let cfg = Cfg {
        base_year,
        span,
        // swarm, sizes: one history in two hundred is long (hundreds to thousands of operations)
        len: match rng.below(200) {
            0 => rng.range(300, 3000) as usize,
            1..=20 => 0,
            21..=40 => 1,
            41..=60 => 2,
            61..=80 => 3,
            _ => rng.range(4, 40) as usize,
        },
        p_short: rate(rng),
        p_eintr: rate(rng),
        p_hard: rate(rng) / 4,
        p_zero: rate(rng) / 8,
        p_chunk: *rng.pick(&[0, 0, 8, 24]),
        p_capacity: *rng.pick(&[0, 0, 8, 24]),
        faults,
    };
    let huge = span > 1000;
    let config = format!(
        "span={} base_year={} len={} faults={} short={} eintr={} hard={} zero={} chunk={} capacity={}",
        cfg.span, cfg.base_year, cfg.len, cfg.faults, cfg.p_short, cfg.p_eintr, cfg.p_hard, cfg.p_zero, cfg.p_chunk, cfg.p_capacity
    );

    // --- history ---
    let mut ops = Vec::with_capacity(cfg.len + 2);
    let mut known: Vec<D> = Vec::new();
    let mut lo = i32::MAX;
    let mut hi = i32::MIN;
    let mut snaps = 0u32;
    // weights: insert, contains, first_after, count, iter, year, clone, rebuild, snapshot, cmpsnap, roundtrip, concat
    let weights: [u32; 12] = if huge { [30, 10, 14, 2, 1, 4, 1, 0, 1, 1, 2, 1] } else { [30, 10, 16, 3, 4, 6, 2, 3, 4, 6, 12, 7] };
    if whole_domain {
        // both ends of the domain, in either order, then the ordinary history
        let mut ends = [D(min_year(), 1, 1 + rng.below(28) as u32), D(max_year(), 12, 31 - rng.below(3) as u32)];
        if rng.chance(1, 2) {
            ends.swap(0, 1);
        }
        for d in ends {
            known.push(d);
            lo = lo.min(d.0);
            hi = hi.max(d.0);
            ops.push(Op::Insert(d));
        }
    }
    for _ in 0..cfg.len.min(if whole_domain { 12 } else { usize::MAX }) {
        let years = if hi >= lo { hi - lo + 1 } else { 0 };
        let bytes = 12 + 48 * years as u64;
        let op = match rng.weighted(&weights) {
            0 => {
                let d = gen_date(rng, &cfg, &known);
                if d.date().is_some() {
                    known.push(d);
                    lo = lo.min(d.0);
                    hi = hi.max(d.0);
                }
                if rng.chance(1, 6) {
                    Op::InsertViaYear(d)
                } else {
                    Op::Insert(d)
                }
            }
            1 => Op::Contains(gen_query(rng, &cfg, &known)),
            2 => Op::FirstAfter(gen_query(rng, &cfg, &known)),
            3 => Op::Count,
            4 => Op::Iter,
            5 => {
                let d = gen_query(rng, &cfg, &known);
                Op::Year(d, gen_plan(rng, &cfg, 12, 48, false), gen_plan(rng, &cfg, 12, 48, true))
            }
            6 => Op::CloneEq,
            7 => Op::Rebuild { seed: rng.u64(), collect: rng.chance(1, 2) },
            8 => {
                snaps += 1;
                Op::Snapshot
            }
            9 => {
                if rng.chance(1, 4) {
                    Op::CloneFrom(rng.below(snaps.max(1) as u64) as u32)
                } else if rng.chance(1, 2) {
                    Op::CmpSnap(rng.below(snaps.max(1) as u64) as u32)
                } else {
                    Op::SnapQuery(rng.below(snaps.max(1) as u64) as u32, gen_query(rng, &cfg, &known))
                }
            }
            10 => Op::RoundTrip { w: gen_plan(rng, &cfg, est_calls(years), bytes, false), r: gen_plan(rng, &cfg, est_calls(years), bytes, true), tail: rng.below(9) as u8 },
            _ => {
                let n = rng.range(2, if thorough { 16 } else { 6 }) as usize;
                let items: Vec<Item> = (0..n)
                    .map(|_| match rng.below(5) {
                        0 => Item::Empty,
                        1 | 2 => Item::Cur,
                        _ => Item::Snap(rng.below(snaps.max(1) as u64) as u32),
                    })
                    .collect();
                let k = n as u32;
                Op::Concat {
                    w: gen_plan(rng, &cfg, est_calls(years) * k, bytes * k as u64, false),
                    r: gen_plan(rng, &cfg, est_calls(years) * k, bytes * k as u64, true),
                    items,
                    tail: rng.below(9) as u8,
                }
            }
        };
        ops.push(op);
    }
    // closing checks: full agreement, then the crash-point sweep over the final stream
    ops.push(Op::Iter);
    if whole_domain {
        ops.push(Op::RoundTrip { w: Plan::default(), r: Plan::default(), tail: 3 });
    }
    if rng.chance(3, 4) {
        let years = if hi >= lo { (hi - lo + 1) as u64 } else { 0 };
        let mut items = vec![Item::Cur];
        for i in 0..snaps.min(2) {
            items.push(Item::Snap(i));
        }
        if rng.chance(1, 3) {
            items.insert(rng.usize_below(items.len() + 1), Item::Empty);
        }
        let total = (12 + 48 * years) * items.len() as u64;
        let offsets = if total <= 2048 {
            None
        } else {
            // longer streams: 256 offsets, biased to calendar boundaries and headers
            let mut v: Vec<u32> = (0..256)
                .map(|_| {
                    let seg = rng.below(items.len() as u64);
                    let b = seg * (12 + 48 * years);
                    (match rng.below(4) {
                        0 => b + rng.below(13),
                        1 => (b + 12 + 48 * years).saturating_sub(rng.below(5)),
                        _ => rng.below(total + 1),
                    })
                    .min(u32::MAX as u64) as u32
                })
                .collect();
            v.sort_unstable();
            v.dedup();
            Some(v)
        };
        if !(huge && total > 8_000_000) {
            ops.push(Op::CrashSweep { items, offsets, chunk: if rng.chance(1, 3) { Some(rng.range(1, 7) as u32) } else { None } });
        }
    }
    Scenario { config, ops }
}
