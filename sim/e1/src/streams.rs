//! Simulated byte streams with fault injection. Every fault is counted when it
//! actually fires (is returned to the callee), not when it is configured.

use std::io;

use simcore::{Counters, Fp};

use crate::scenario::{Act, ErrK, Plan};

pub const FAULT_KINDS: &[&str] = &[
    "w_short",
    "w_eintr",
    "w_hard",
    "w_zero",
    "w_disk_full",
    "w_chunk_limited",
    "r_short",
    "r_eintr",
    "r_hard",
    "r_eof_premature",
    "r_truncated",
    "r_chunk_limited",
    "w_gathered_write",
    "r_would_block_after_end",
    "crash_point",
    "eintr_then_short",
    "fault_in_header",
    "fault_in_body",
];

fn kind(k: ErrK) -> io::ErrorKind {
    match k {
        ErrK::Other => io::ErrorKind::Other,
        ErrK::WouldBlock => io::ErrorKind::WouldBlock,
        ErrK::BrokenPipe => io::ErrorKind::BrokenPipe,
        ErrK::StorageFull => io::ErrorKind::StorageFull,
        ErrK::TimedOut => io::ErrorKind::TimedOut,
    }
}

fn act_at(plan: &Plan, call: u32) -> Option<Act> {
    plan.acts.iter().find(|(i, _)| *i == call).map(|(_, a)| *a)
}

#[derive(Default)]
pub struct StreamStats {
    pub faults: Counters,
    pub fired: u64,
    /// an injected terminal fault (hard error, premature Ok(0), disk full) was returned
    pub terminal: bool,
    pub calls: u32,
    pub bytes: u64,
    /// the reader returned Ok(0) because the stream (or its truncated prefix) ended
    pub hit_end: bool,
    /// a call was made after every byte had been delivered and was answered with WouldBlock (strict_end)
    pub called_after_end: bool,
    last_was_eintr: bool,
}

impl StreamStats {
    fn fire(&mut self, k: &'static str, pos: u64) {
        self.faults.hit(k);
        self.fired += 1;
        // first 12 bytes of a calendar stream are the (first_year, length) header
        if pos < 12 {
            self.faults.hit("fault_in_header");
        } else {
            self.faults.hit("fault_in_body");
        }
    }
}

/// `io::Write` over an in-memory "device".
pub struct SimWriter<'p> {
    plan: &'p Plan,
    pub accepted: Vec<u8>,
    pub st: StreamStats,
}

impl<'p> SimWriter<'p> {
    pub fn new(plan: &'p Plan) -> Self {
        SimWriter { plan, accepted: Vec::new(), st: StreamStats::default() }
    }
    pub fn log(&self, fp: &mut Fp) {
        fp.u64(self.st.calls as u64);
        fp.u64(self.st.fired);
        fp.u64(self.accepted.len() as u64);
        fp.tag(self.st.terminal as u8);
    }
}

impl io::Write for SimWriter<'_> {
    fn write(&mut self, buf: &[u8]) -> io::Result<usize> {
        let call = self.st.calls;
        self.st.calls += 1;
        if buf.is_empty() {
            return Ok(0);
        }
        let pos = self.accepted.len() as u64;
        let was_eintr = std::mem::take(&mut self.st.last_was_eintr);
        let mut n = buf.len();
        match act_at(self.plan, call) {
            Some(Act::Eintr) => {
                self.st.fire("w_eintr", pos);
                self.st.last_was_eintr = true;
                return Err(io::ErrorKind::Interrupted.into());
            }
            Some(Act::Hard(k)) => {
                self.st.fire("w_hard", pos);
                self.st.terminal = true;
                return Err(kind(k).into());
            }
            Some(Act::Zero) => {
                self.st.fire("w_zero", pos);
                self.st.terminal = true;
                return Ok(0);
            }
            Some(Act::Short(k)) => {
                if n > 1 {
                    n = (k as usize).clamp(1, n - 1);
                    self.st.fire("w_short", pos);
                    if was_eintr {
                        self.st.faults.hit("eintr_then_short");
                    }
                }
            }
            None => {}
        }
        if let Some(c) = self.plan.max_chunk {
            let c = (c as usize).max(1);
            if n > c {
                n = c;
                self.st.fire("w_chunk_limited", pos);
            }
        }
        if let Some(cap) = self.plan.capacity {
            let room = cap.saturating_sub(pos) as usize;
            if room == 0 {
                self.st.fire("w_disk_full", pos);
                self.st.terminal = true;
                return Err(io::ErrorKind::StorageFull.into());
            }
            if n > room {
                // partial write up to the last free byte; the next call fails
                n = room;
            }
        }
        self.accepted.extend_from_slice(&buf[..n]);
        self.st.bytes += n as u64;
        Ok(n)
    }

    fn flush(&mut self) -> io::Result<()> {
        Ok(())
    }

    fn write_vectored(&mut self, bufs: &[io::IoSlice<'_>]) -> io::Result<usize> {
        if !self.plan.gather {
            // std's default: the first non-empty slice
            let buf = bufs.iter().find(|b| !b.is_empty()).map_or(&[][..], |b| &**b);
            return self.write(buf);
        }
        // a gathering device: the slices are one logical buffer, faults apply to it as a whole
        let all: Vec<u8> = bufs.iter().flat_map(|b| b.iter().copied()).collect();
        if bufs.len() > 1 && !all.is_empty() {
            self.st.faults.hit("w_gathered_write");
        }
        self.write(&all)
    }
}

/// `io::Read` over a byte slice.
pub struct SimReader<'p, 'd> {
    plan: &'p Plan,
    data: &'d [u8],
    pub pos: usize,
    pub st: StreamStats,
    eof_sticky: bool,
}

impl<'p, 'd> SimReader<'p, 'd> {
    pub fn new(plan: &'p Plan, data: &'d [u8]) -> Self {
        SimReader { plan, data, pos: 0, st: StreamStats::default(), eof_sticky: false }
    }
    pub fn log(&self, fp: &mut Fp) {
        fp.u64(self.st.calls as u64);
        fp.u64(self.st.fired);
        fp.u64(self.pos as u64);
        fp.tag(self.st.terminal as u8);
    }
    /// Reset the per-operation flags (the stream keeps its position and call count).
    pub fn begin_op(&mut self) {
        self.st.terminal = false;
        self.st.hit_end = false;
        self.st.called_after_end = false;
    }
    /// bytes that can still be delivered from the current position
    pub fn remaining(&self) -> usize {
        let limit = match self.plan.capacity {
            Some(c) => (c as usize).min(self.data.len()),
            None => self.data.len(),
        };
        if self.eof_sticky { 0 } else { limit.saturating_sub(self.pos) }
    }
}

impl io::Read for SimReader<'_, '_> {
    fn read(&mut self, buf: &mut [u8]) -> io::Result<usize> {
        let call = self.st.calls;
        self.st.calls += 1;
        let pos = self.pos as u64;
        let limit = match self.plan.capacity {
            Some(c) => (c as usize).min(self.data.len()),
            None => self.data.len(),
        };
        if buf.is_empty() {
            if self.plan.strict_end && limit == self.data.len() && self.pos >= limit {
                self.st.faults.hit("r_would_block_after_end");
                self.st.called_after_end = true;
                return Err(io::ErrorKind::WouldBlock.into());
            }
            return Ok(0);
        }
        let was_eintr = std::mem::take(&mut self.st.last_was_eintr);
        if self.eof_sticky {
            return Ok(0);
        }
        let avail = limit.saturating_sub(self.pos);
        if avail == 0 && self.plan.strict_end && limit == self.data.len() {
            // a drained non-blocking source: nothing more will come, and asking again is answered with WouldBlock
            self.st.faults.hit("r_would_block_after_end");
            self.st.called_after_end = true;
            return Err(io::ErrorKind::WouldBlock.into());
        }
        if avail == 0 {
            // end of the (possibly truncated) stream: not an injected terminal
            // fault by itself -- the oracle decides from the byte counts whether
            // the value being read was complete
            if limit < self.data.len() {
                self.st.fire("r_truncated", pos);
            }
            self.st.hit_end = true;
            return Ok(0);
        }
        let mut n = buf.len().min(avail);
        match act_at(self.plan, call) {
            Some(Act::Eintr) => {
                self.st.fire("r_eintr", pos);
                self.st.last_was_eintr = true;
                return Err(io::ErrorKind::Interrupted.into());
            }
            Some(Act::Hard(k)) => {
                self.st.fire("r_hard", pos);
                self.st.terminal = true;
                return Err(kind(k).into());
            }
            Some(Act::Zero) => {
                self.st.fire("r_eof_premature", pos);
                self.st.terminal = true;
                self.eof_sticky = true;
                return Ok(0);
            }
            Some(Act::Short(k)) => {
                if n > 1 {
                    n = (k as usize).clamp(1, n - 1);
                    self.st.fire("r_short", pos);
                    if was_eintr {
                        self.st.faults.hit("eintr_then_short");
                    }
                }
            }
            None => {}
        }
        if let Some(c) = self.plan.max_chunk {
            let c = (c as usize).max(1);
            if n > c {
                n = c;
                self.st.fire("r_chunk_limited", pos);
            }
        }
        buf[..n].copy_from_slice(&self.data[self.pos..self.pos + n]);
        self.pos += n;
        self.st.bytes += n as u64;
        Ok(n)
    }
}
