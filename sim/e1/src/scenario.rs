//! Explicit, replayable description of one simulated run. The replay file
//! stores this structure, not the seed, so replay does not depend on the
//! generator staying unchanged.

use chrono::{Datelike, NaiveDate};
use serde::{Deserialize, Serialize};

/// (year, month, day)
#[derive(Serialize, Deserialize, Clone, Copy, Debug, PartialEq, Eq, PartialOrd, Ord)]
pub struct D(pub i32, pub u32, pub u32);

impl D {
    pub fn date(self) -> Option<NaiveDate> {
        NaiveDate::from_ymd_opt(self.0, self.1, self.2)
    }
    pub fn of(d: NaiveDate) -> D {
        D(d.year(), d.month(), d.day())
    }
}

#[derive(Serialize, Deserialize, Clone, Copy, Debug, PartialEq, Eq)]
pub enum ErrK {
    Other,
    WouldBlock,
    BrokenPipe,
    StorageFull,
    TimedOut,
}

/// What one `read()` / `write()` call does.
#[derive(Serialize, Deserialize, Clone, Copy, Debug, PartialEq, Eq)]
pub enum Act {
    /// transfer only n bytes (clamped to 1..len-1; a 1-byte request is served whole)
    Short(u32),
    /// return ErrorKind::Interrupted, transfer nothing
    Eintr,
    /// return a hard error, transfer nothing
    Hard(ErrK),
    /// return Ok(0) (writer: "wrote nothing"; reader: premature end of stream, sticky)
    Zero,
}

/// Sparse per-call fault plan for one stream.
#[derive(Serialize, Deserialize, Clone, Debug, Default, PartialEq, Eq)]
pub struct Plan {
    /// (call index, action); calls not listed transfer everything requested
    pub acts: Vec<(u32, Act)>,
    /// every call transfers at most this many bytes
    pub max_chunk: Option<u32>,
    /// writer: device accepts this many bytes in total, then fails (disk full);
    /// reader: stream is truncated after this many bytes (then Ok(0) for ever)
    pub capacity: Option<u64>,
    /// reader flavour: 0 = the simulated reader itself; 1 = `std::io::Chain` of two simulated readers cut at
    /// `cut`; 2 = `BufReader` (capacity `cut` + 1) around it; 3 = `Take` around it (limit = everything);
    /// 4 = `Chain` of two slices cut at `cut`; 5 = `BufReader<&[u8]>` chained with a `Cursor` and a slice;
    /// 6 = a `VecDeque<u8>` whose content wraps at `cut`; 7 = `Box<dyn Read>` around a chain of slices.
    /// The std adaptors answer `size_hint`, `read_vectored` etc. the way real readers do.
    #[serde(default)]
    pub flavour: u8,
    #[serde(default)]
    pub cut: u32,
    /// reader: once every byte of the stream has been delivered, any further call fails with WouldBlock
    /// (a drained non-blocking source) instead of returning Ok(0)
    #[serde(default)]
    pub strict_end: bool,
    /// writer: `write_vectored` gathers across the slices it is given (with the same faults), as sockets and
    /// files do, instead of std's default (first non-empty slice only)
    #[serde(default)]
    pub gather: bool,
}

impl Plan {
    pub fn is_clean(&self) -> bool {
        self.acts.is_empty() && self.max_chunk.is_none() && self.capacity.is_none() && self.flavour == 0 && !self.strict_end && !self.gather
    }
}

#[derive(Serialize, Deserialize, Clone, Copy, Debug, PartialEq, Eq)]
pub enum Item {
    Cur,
    Empty,
    Snap(u32),
}

#[derive(Serialize, Deserialize, Clone, Debug, PartialEq, Eq)]
pub enum Op {
    Insert(D),
    /// insert through `year_for_mut(date)` when the year is inside the window (else a plain insert)
    InsertViaYear(D),
    Contains(D),
    FirstAfter(D),
    Count,
    Iter,
    /// year_for(date) and the CompactYear / CompactMonth queries on it, plus a
    /// CompactYear serialization round trip through faulty streams
    Year(D, Plan, Plan),
    /// clone, ==, Ord, Hash against the original
    CloneEq,
    /// rebuild from a seeded permutation (with duplicates) of the model;
    /// `collect` uses FromIterator instead of repeated insert
    Rebuild { seed: u64, collect: bool },
    /// remember the current calendar (and model) for later Concat / equality checks
    Snapshot,
    /// compare the current calendar with snapshot i: == iff models are equal
    CmpSnap(u32),
    /// `snapshot_i.clone_from(&current)`: the snapshot must become the current set
    CloneFrom(u32),
    /// contains / first_after / count on snapshot i (another calendar than the one just used: anything a
    /// calendar remembers must be its own)
    SnapQuery(u32, D),
    /// serialize through writer plan, deserialize the fault-free bytes through reader plan
    RoundTrip { w: Plan, r: Plan, tail: u8 },
    /// several calendars written back to back into ONE stream, then read back
    Concat { items: Vec<Item>, w: Plan, r: Plan, tail: u8 },
    /// crash then restart at every prefix length of the concatenated stream
    /// (`offsets` = None: every offset; Some: the listed ones)
    CrashSweep { items: Vec<Item>, offsets: Option<Vec<u32>>, chunk: Option<u32> },
}

#[derive(Serialize, Deserialize, Clone, Debug, PartialEq, Eq)]
pub struct Scenario {
    /// free-text description of the swarm configuration the generator drew
    pub config: String,
    pub ops: Vec<Op>,
}
