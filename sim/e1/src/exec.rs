//! Executes a [`Scenario`] against the real `compact-calendar` and the model,
//! checking the oracles of DESIGN.md section 4 after every step.

use std::collections::hash_map::DefaultHasher;
use std::collections::BTreeSet;
use std::hash::{Hash, Hasher};

use chrono::{Datelike, NaiveDate};
use compact_calendar::{CompactCalendar, CompactMonth, CompactYear};
use simcore::{Counters, Fp, Rng};

use crate::scenario::{Item, Op, Plan, Scenario};
use crate::streams::{SimReader, SimWriter};

pub const PROBES: &[&str] = &[
    "window_grew_front",
    "window_grew_back",
    "window_grew_by_more_than_1",
    "insert_duplicate",
    "insert_via_year_for_mut",
    "query_on_another_calendar",
    "clone_from_into_other_window",
    "read_through_std_chain",
    "read_through_std_bufreader",
    "read_through_std_take",
    "read_through_chain_of_slices",
    "read_through_chain_of_bufreaders",
    "read_through_wrapped_ring_buffer",
    "read_through_boxed_chain",
    "roundtrip_of_the_whole_date_domain",
    "insert_negative_year",
    "first_after_same_month",
    "first_after_later_month",
    "first_after_later_year",
    "first_after_before_window",
    "first_after_after_window",
    "first_after_none_in_window",
    "first_after_on_member",
    "day31_set",
    "december_set",
    "feb29_set",
    "reader_drained_to_boundary",
    "roundtrip_transparent_faults_only",
    "roundtrip_terminal_write",
    "roundtrip_terminal_read",
    "concat_of_3_or_more",
    "concat_with_empty_calendar",
    "crash_in_header",
    "crash_in_length_word",
    "crash_in_year_body",
    "crash_at_boundary",
    "writer_crashed_mid_calendar",
    "huge_span",
    "year_roundtrip",
];

#[derive(Clone, Debug)]
pub struct Fail {
    pub class: String,
    pub step: usize,
    pub detail: String,
}

pub struct RunOut {
    pub fp: u64,
    pub fail: Option<Fail>,
    pub faults: Counters,
    pub probes: Counters,
    pub sim: Counters,
    pub faults_fired: u64,
    pub crash_points: u64,
    pub state_sig: u64,
}

struct World {
    cal: CompactCalendar,
    model: BTreeSet<NaiveDate>,
    snaps: Vec<(CompactCalendar, BTreeSet<NaiveDate>)>,
    empty: (CompactCalendar, BTreeSet<NaiveDate>),
}

impl World {
    fn item(&self, it: Item) -> (&CompactCalendar, &BTreeSet<NaiveDate>) {
        match it {
            Item::Cur => (&self.cal, &self.model),
            Item::Empty => (&self.empty.0, &self.empty.1),
            Item::Snap(i) => {
                if self.snaps.is_empty() {
                    (&self.cal, &self.model)
                } else {
                    let s = &self.snaps[i as usize % self.snaps.len()];
                    (&s.0, &s.1)
                }
            }
        }
    }
}

struct Ctx {
    w: World,
    fp: Fp,
    faults: Counters,
    probes: Counters,
    sim: Counters,
    faults_fired: u64,
    crash_points: u64,
    branches: u32,
    fault_kinds: u32,
    crash_classes: u32,
}

type R = Result<(), (String, String)>;

fn fail(class: &str, detail: String) -> R {
    Err((class.to_string(), detail))
}

fn hash_of<T: Hash>(t: &T) -> u64 {
    let mut h = DefaultHasher::new();
    t.hash(&mut h);
    h.finish()
}

pub fn execute(sc: &Scenario) -> RunOut {
    let mut cx = Ctx {
        w: World { cal: CompactCalendar::default(), model: BTreeSet::new(), snaps: Vec::new(), empty: (CompactCalendar::default(), BTreeSet::new()) },
        fp: Fp::default(),
        faults: Counters::default(),
        probes: Counters::default(),
        sim: Counters::default(),
        faults_fired: 0,
        crash_points: 0,
        branches: 0,
        fault_kinds: 0,
        crash_classes: 0,
    };
    let mut failure = None;
    for (i, op) in sc.ops.iter().enumerate() {
        let r = simcore::catch(|| step(&mut cx, op));
        let r = match r {
            Ok(r) => r,
            Err(msg) => Err(("panic".to_string(), format!("panic in the system under test during {op:?}: {msg}"))),
        };
        if let Err((class, detail)) = r {
            cx.fp.str(&class);
            failure = Some(Fail { class, step: i, detail });
            break;
        }
    }
    // abstract state signature
    let win = match (cx.w.model.iter().next(), cx.w.model.iter().next_back()) {
        (Some(a), Some(b)) => (b.year() - a.year() + 1) as u64,
        _ => 0,
    };
    let bucket = |n: u64| -> u64 {
        match n {
            0 => 0,
            1 => 1,
            2..=3 => 2,
            4..=15 => 3,
            16..=99 => 4,
            100..=999 => 5,
            _ => 6,
        }
    };
    let mut sig = Fp::default();
    sig.u64(bucket(win));
    sig.u64(bucket(cx.w.model.len() as u64));
    sig.u64(cx.branches as u64);
    sig.u64(cx.fault_kinds as u64);
    sig.u64(cx.crash_classes as u64);
    RunOut {
        fp: cx.fp.0,
        fail: failure,
        faults: cx.faults,
        probes: cx.probes,
        sim: cx.sim,
        faults_fired: cx.faults_fired,
        crash_points: cx.crash_points,
        state_sig: sig.0,
    }
}

fn log_date(fp: &mut Fp, d: Option<NaiveDate>) {
    match d {
        Some(d) => fp.i64(d.num_days_from_ce() as i64),
        None => fp.i64(i64::MIN),
    }
}

fn absorb_stream(cx: &mut Ctx, st: &crate::streams::StreamStats) {
    cx.faults.merge(&st.faults);
    cx.faults_fired += st.fired;
    for (k, _) in &st.faults.0 {
        if let Some(i) = crate::streams::FAULT_KINDS.iter().position(|x| x == k) {
            cx.fault_kinds |= 1 << i;
        }
    }
}

/// The full set of read-only agreement checks between calendar and model.
fn check_agree(cal: &CompactCalendar, model: &BTreeSet<NaiveDate>, what: &str) -> R {
    let got: Vec<NaiveDate> = cal.iter().collect();
    if !got.iter().copied().eq(model.iter().copied()) {
        return fail(
            "iter_mismatch",
            format!("{what}: iter() gives {} dates {:?}.., model has {} dates {:?}..", got.len(), got.iter().take(6).collect::<Vec<_>>(), model.len(), model.iter().take(6).collect::<Vec<_>>()),
        );
    }
    if cal.count() as usize != model.len() {
        return fail("count_mismatch", format!("{what}: count() = {}, model has {}", cal.count(), model.len()));
    }
    Ok(())
}

fn model_first_after(model: &BTreeSet<NaiveDate>, d: NaiveDate) -> Option<NaiveDate> {
    use std::ops::Bound::*;
    model.range((Excluded(d), Unbounded)).next().copied()
}

fn reference_bytes(cal: &CompactCalendar) -> Result<Vec<u8>, (String, String)> {
    let mut v = Vec::new();
    match cal.serialize(&mut v) {
        Ok(()) => Ok(v),
        Err(e) => Err(("serialize_failed_without_fault".into(), format!("serialize into a Vec returned {e}"))),
    }
}

fn step(cx: &mut Ctx, op: &Op) -> R {
    match op {
        Op::Insert(d) => {
            let Some(date) = d.date() else { return Ok(()) };
            cx.fp.tag(1);
            log_date(&mut cx.fp, Some(date));
            let before = (cx.w.model.iter().next().map(|d| d.year()), cx.w.model.iter().next_back().map(|d| d.year()));
            let was_new = cx.w.model.insert(date);
            let got = cx.w.cal.insert(date);
            cx.fp.tag(got as u8);
            if let (Some(lo), Some(hi)) = before {
                if date.year() < lo {
                    cx.probes.hit("window_grew_front");
                    if lo - date.year() > 1 {
                        cx.probes.hit("window_grew_by_more_than_1");
                    }
                    if lo - date.year() > 100_000 {
                        cx.probes.hit("huge_span");
                    }
                }
                if date.year() > hi {
                    cx.probes.hit("window_grew_back");
                    if date.year() - hi > 1 {
                        cx.probes.hit("window_grew_by_more_than_1");
                    }
                    if date.year() - hi > 100_000 {
                        cx.probes.hit("huge_span");
                    }
                }
            }
            if !was_new {
                cx.probes.hit("insert_duplicate");
            }
            if date.year() < 0 {
                cx.probes.hit("insert_negative_year");
            }
            if date.day() == 31 {
                cx.probes.hit("day31_set");
            }
            if date.month() == 12 {
                cx.probes.hit("december_set");
            }
            if date.month() == 2 && date.day() == 29 {
                cx.probes.hit("feb29_set");
            }
            if got != was_new {
                return fail("insert_return", format!("insert({date}) returned {got}, model says was_new={was_new}"));
            }
            if !cx.w.cal.contains(date) {
                return fail("contains_mismatch", format!("contains({date}) is false right after insert"));
            }
            // cheap invariant after every insertion; the full comparison runs on Iter / Count ops
            if cx.w.cal.count() as usize != cx.w.model.len() {
                return fail("count_mismatch", format!("after insert({date}): count() = {}, model has {}", cx.w.cal.count(), cx.w.model.len()));
            }
            Ok(())
        }
        Op::InsertViaYear(d) => {
            let Some(date) = d.date() else { return Ok(()) };
            cx.fp.tag(14);
            log_date(&mut cx.fp, Some(date));
            let was_new = cx.w.model.insert(date);
            let got = match cx.w.cal.year_for_mut(date) {
                Some(y) => {
                    cx.probes.hit("insert_via_year_for_mut");
                    y.insert(date.month(), date.day())
                }
                None => cx.w.cal.insert(date),
            };
            cx.fp.tag(got as u8);
            if got != was_new {
                return fail("insert_return", format!("insert of {date} through year_for_mut returned {got}, model says was_new={was_new}"));
            }
            if !cx.w.cal.contains(date) || cx.w.cal.count() as usize != cx.w.model.len() {
                return fail("contains_mismatch", format!("after inserting {date} through year_for_mut: contains = {}, count = {}, model has {}", cx.w.cal.contains(date), cx.w.cal.count(), cx.w.model.len()));
            }
            Ok(())
        }
        Op::Contains(d) => {
            let Some(date) = d.date() else { return Ok(()) };
            cx.fp.tag(2);
            log_date(&mut cx.fp, Some(date));
            let got = cx.w.cal.contains(date);
            cx.fp.tag(got as u8);
            let want = cx.w.model.contains(&date);
            if got != want {
                return fail("contains_mismatch", format!("contains({date}) = {got}, model says {want}"));
            }
            Ok(())
        }
        Op::FirstAfter(d) => {
            let Some(date) = d.date() else { return Ok(()) };
            cx.fp.tag(3);
            log_date(&mut cx.fp, Some(date));
            let got = cx.w.cal.first_after(date);
            log_date(&mut cx.fp, got);
            let want = model_first_after(&cx.w.model, date);
            // branch classification (harness side, from the model)
            let b = match (cx.w.model.iter().next(), cx.w.model.iter().next_back(), want) {
                (Some(lo), _, _) if date.year() < lo.year() => ("first_after_before_window", 0),
                (_, Some(hi), _) if date.year() > hi.year() => ("first_after_after_window", 1),
                (_, _, None) => ("first_after_none_in_window", 2),
                (_, _, Some(w)) if w.year() == date.year() && w.month() == date.month() => ("first_after_same_month", 3),
                (_, _, Some(w)) if w.year() == date.year() => ("first_after_later_month", 4),
                (_, _, Some(_)) => ("first_after_later_year", 5),
            };
            cx.probes.hit(b.0);
            cx.branches |= 1 << b.1;
            if cx.w.model.contains(&date) {
                cx.probes.hit("first_after_on_member");
                cx.branches |= 1 << 6;
            }
            if got != want {
                return fail("first_after_mismatch", format!("first_after({date}) = {got:?}, model says {want:?}"));
            }
            Ok(())
        }
        Op::Count => {
            cx.fp.tag(4);
            let got = cx.w.cal.count();
            cx.fp.u64(got as u64);
            if got as usize != cx.w.model.len() {
                return fail("count_mismatch", format!("count() = {got}, model has {}", cx.w.model.len()));
            }
            Ok(())
        }
        Op::Iter => {
            cx.fp.tag(5);
            cx.fp.u64(cx.w.model.len() as u64);
            check_agree(&cx.w.cal, &cx.w.model, "Iter")?;
            // "ordered iteration" is the whole Iterator protocol, not only next(): nth after some next()s and what
            // follows it, step_by, skip, last, count, size_hint (an iterator may override any of them); positions are
            // derived from the size of the set, so that nothing is drawn for them
            let n = cx.w.model.len();
            // (not on the rare windows of tens of thousands of years: each of these walks costs a pass over the window)
            let span = match (cx.w.model.iter().next(), cx.w.model.iter().next_back()) {
                (Some(lo), Some(hi)) => hi.year() - lo.year(),
                _ => 0,
            };
            if n > 0 && span <= 5_000 {
                let want: Vec<NaiveDate> = cx.w.model.iter().copied().collect();
                let (a, k, j) = ((1 + n % 3).min(n), 2 + n % 5, n / 3);
                let mut it = cx.w.cal.iter();
                for _ in 0..a {
                    it.next();
                }
                let (lo, hi) = it.size_hint();
                if lo > n - a || hi.map_or(false, |h| h < n - a) {
                    return fail("iter_protocol_mismatch", format!("size_hint after {a} items of {n} is ({lo}, {hi:?})"));
                }
                let got = it.nth(j);
                if got != want.get(a + j).copied() {
                    return fail("iter_protocol_mismatch", format!("iter(): {a} x next() then nth({j}) = {got:?}, the sorted set gives {:?}", want.get(a + j)));
                }
                let rest: Vec<NaiveDate> = it.collect();
                if rest[..] != want[(a + j + 1).min(n)..] {
                    return fail("iter_protocol_mismatch", format!("iter(): items after {a} x next() and nth({j}) differ from the sorted set ({} items, expected {})", rest.len(), n.saturating_sub(a + j + 1)));
                }
                if !cx.w.cal.iter().step_by(k).eq(want.iter().copied().step_by(k)) {
                    return fail("iter_protocol_mismatch", format!("iter().step_by({k}) differs from the sorted set"));
                }
                if cx.w.cal.iter().skip(j).next() != want.get(j).copied() || cx.w.cal.iter().last() != want.last().copied() || cx.w.cal.iter().count() != n {
                    return fail("iter_protocol_mismatch", format!("iter().skip({j}).next() / last() / count() differ from the sorted set"));
                }
            }
            // Debug output is the set of dates (only rendered for small sets)
            if cx.w.model.len() <= 12 {
                let want = format!("CompactCalendar({{{}}})", cx.w.model.iter().map(|d| format!("{d:?}")).collect::<Vec<_>>().join(", "));
                let got = format!("{:?}", cx.w.cal);
                if got != want {
                    return fail("debug_mismatch", format!("Debug renders {got}, the set is {want}"));
                }
            }
            Ok(())
        }
        Op::Year(d, w, r) => {
            let Some(date) = d.date() else { return Ok(()) };
            cx.fp.tag(6);
            log_date(&mut cx.fp, Some(date));
            let in_window = match (cx.w.model.iter().next(), cx.w.model.iter().next_back()) {
                (Some(lo), Some(hi)) => (lo.year()..=hi.year()).contains(&date.year()),
                _ => false,
            };
            let year = cx.w.cal.year_for(date).copied();
            if year.is_some() != in_window {
                return fail("year_for_mismatch", format!("year_for({date}).is_some() = {}, model window says {in_window}", year.is_some()));
            }
            let Some(year) = year else { return Ok(()) };
            let want: Vec<(u32, u32)> = cx.w.model.iter().filter(|x| x.year() == date.year()).map(|x| (x.month(), x.day())).collect();
            let got: Vec<(u32, u32)> = year.iter().collect();
            if got != want {
                return fail("year_iter_mismatch", format!("year_for({date}).iter() = {got:?}, model {want:?}"));
            }
            if year.count() as usize != want.len() {
                return fail("year_count_mismatch", format!("year.count() = {}, model {}", year.count(), want.len()));
            }
            if year.first() != want.first().copied() {
                return fail("year_first_mismatch", format!("year.first() = {:?}, model {:?}", year.first(), want.first()));
            }
            let q = (date.month(), date.day());
            let wfa = want.iter().copied().find(|x| *x > q);
            if year.first_after(q.0, q.1) != wfa {
                return fail("year_first_after_mismatch", format!("year.first_after{q:?} = {:?}, model {wfa:?}", year.first_after(q.0, q.1)));
            }
            if year.contains(q.0, q.1) != want.contains(&q) {
                return fail("year_contains_mismatch", format!("year.contains{q:?} wrong"));
            }
            // CompactYear / CompactMonth round trip through faulty streams
            cx.probes.hit("year_roundtrip");
            let mut refb = Vec::new();
            year.serialize(&mut refb).map_err(|e| ("serialize_failed_without_fault".to_string(), format!("year.serialize(Vec): {e}")))?;
            let mut sw = SimWriter::new(w);
            let res = year.serialize(&mut sw);
            sw.log(&mut cx.fp);
            absorb_stream(cx, &sw.st);
            cx.sim.add("bytes_written", sw.st.bytes);
            check_write_outcome("year", res.is_ok(), sw.st.terminal, &sw.accepted, &refb)?;
            let mut data = refb.clone();
            data.extend_from_slice(&[0xA5; 5]);
            let mut sr = SimReader::new(r, &data);
            let avail = sr.remaining();
            let res = CompactYear::deserialize(&mut sr);
            sr.log(&mut cx.fp);
            absorb_stream(cx, &sr.st);
            cx.sim.add("bytes_read", sr.st.bytes);
            let expect_ok = avail >= refb.len() && !sr.st.terminal;
            match (res, expect_ok) {
                (Ok(y2), true) => {
                    if y2 != year {
                        return fail("roundtrip_not_equal", format!("CompactYear round trip returned {y2:?}, wrote {year:?}"));
                    }
                    if sr.pos != refb.len() {
                        return fail("consumed_wrong_length", format!("CompactYear::deserialize consumed {} bytes, {} were written", sr.pos, refb.len()));
                    }
                }
                (Ok(y2), false) => return fail("ok_despite_terminal_fault", format!("CompactYear::deserialize returned Ok({y2:?}) although the stream failed/ended")),
                (Err(e), true) => return fail("err_on_transparent_fault", format!("CompactYear::deserialize returned Err({e}) under transparent faults only")),
                (Err(_), false) => {}
            }
            // month level
            let m = {
                let mut m = CompactMonth::default();
                for (mm, dd) in &want {
                    if *mm == q.0 {
                        m.insert(*dd);
                    }
                }
                m
            };
            let wm: Vec<u32> = want.iter().filter(|x| x.0 == q.0).map(|x| x.1).collect();
            if m.iter().collect::<Vec<_>>() != wm || m.first() != wm.first().copied() || m.count() as usize != wm.len() || m.first_after(q.1) != wm.iter().copied().find(|x| *x > q.1) {
                return fail("month_mismatch", format!("CompactMonth built from {wm:?} disagrees with the model (iter/first/count/first_after({}))", q.1));
            }
            Ok(())
        }
        Op::CloneEq => {
            cx.fp.tag(7);
            let c = cx.w.cal.clone();
            if c != cx.w.cal || c.cmp(&cx.w.cal) != std::cmp::Ordering::Equal || hash_of(&c) != hash_of(&cx.w.cal) {
                return fail("clone_not_equal", "clone differs from the original (==, cmp or hash)".into());
            }
            check_agree(&c, &cx.w.model, "clone")?;
            Ok(())
        }
        Op::Rebuild { seed, collect } => {
            cx.fp.tag(8);
            cx.fp.u64(*seed);
            let mut rng = Rng::new(*seed);
            let mut dates: Vec<NaiveDate> = cx.w.model.iter().copied().collect();
            // duplicates
            let n = dates.len();
            for _ in 0..(n / 3).min(8) {
                let d = dates[rng.usize_below(n)];
                dates.push(d);
            }
            rng.shuffle(&mut dates);
            let rebuilt: CompactCalendar = if *collect {
                dates.iter().copied().collect()
            } else {
                let mut c = CompactCalendar::default();
                for d in &dates {
                    c.insert(*d);
                }
                c
            };
            check_agree(&rebuilt, &cx.w.model, "rebuilt")?;
            if rebuilt != cx.w.cal {
                return fail("equality_not_set_equality", format!("calendar rebuilt from a permutation of the same {} dates is != the original", cx.w.model.len()));
            }
            if hash_of(&rebuilt) != hash_of(&cx.w.cal) || rebuilt.cmp(&cx.w.cal) != std::cmp::Ordering::Equal {
                return fail("equality_not_set_equality", "equal calendars have different hash / cmp != Equal".into());
            }
            Ok(())
        }
        Op::Snapshot => {
            cx.fp.tag(9);
            if cx.w.snaps.len() < 6 {
                cx.w.snaps.push((cx.w.cal.clone(), cx.w.model.clone()));
            }
            Ok(())
        }
        Op::CmpSnap(i) => {
            cx.fp.tag(10);
            if cx.w.snaps.is_empty() {
                return Ok(());
            }
            let (sc, sm) = &cx.w.snaps[*i as usize % cx.w.snaps.len()];
            let eq = *sc == cx.w.cal;
            cx.fp.tag(eq as u8);
            if eq != (*sm == cx.w.model) {
                return fail("equality_not_set_equality", format!("cal == snapshot is {eq}, model sets equal is {}", *sm == cx.w.model));
            }
            Ok(())
        }
        Op::SnapQuery(i, d) => {
            let Some(date) = d.date() else { return Ok(()) };
            cx.fp.tag(15);
            if cx.w.snaps.is_empty() {
                return Ok(());
            }
            let (sc, sm) = &cx.w.snaps[*i as usize % cx.w.snaps.len()];
            let (c, fa, n) = (sc.contains(date), sc.first_after(date), sc.count());
            cx.fp.tag(c as u8);
            log_date(&mut cx.fp, fa);
            cx.probes.hit("query_on_another_calendar");
            if c != sm.contains(&date) || fa != model_first_after(sm, date) || n as usize != sm.len() {
                return fail("snapshot_query_mismatch", format!("snapshot #{i}: contains({date}) = {c}, first_after = {fa:?}, count = {n}; its model says {}, {:?}, {}", sm.contains(&date), model_first_after(sm, date), sm.len()));
            }
            Ok(())
        }
        Op::CloneFrom(i) => {
            cx.fp.tag(16);
            if cx.w.snaps.is_empty() {
                return Ok(());
            }
            let k = *i as usize % cx.w.snaps.len();
            let mut target = cx.w.snaps[k].0.clone();
            target.clone_from(&cx.w.cal);
            cx.probes.hit("clone_from_into_other_window");
            if target != cx.w.cal {
                return fail("clone_not_equal", format!("snapshot #{k}.clone_from(&current) is != current"));
            }
            check_agree(&target, &cx.w.model, "clone_from target")?;
            Ok(())
        }
        Op::RoundTrip { w, r, tail } => {
            cx.fp.tag(11);
            if cx.w.model.first().is_some_and(|d| chrono::Datelike::year(d) == chrono::NaiveDate::MIN.year()) && cx.w.model.last().is_some_and(|d| chrono::Datelike::year(d) == chrono::NaiveDate::MAX.year()) {
                cx.probes.hit("roundtrip_of_the_whole_date_domain");
            }
            let items = [Item::Cur];
            concat(cx, &items, w, r, *tail)
        }
        Op::Concat { items, w, r, tail } => {
            cx.fp.tag(12);
            if items.len() >= 3 {
                cx.probes.hit("concat_of_3_or_more");
            }
            concat(cx, items, w, r, *tail)
        }
        Op::CrashSweep { items, offsets, chunk } => {
            cx.fp.tag(13);
            crash_sweep(cx, items, offsets.as_deref(), *chunk)
        }
    }
}

fn check_write_outcome(what: &str, ok: bool, terminal: bool, accepted: &[u8], reference: &[u8]) -> R {
    if !reference.starts_with(accepted) && !(accepted.len() > reference.len() && accepted.starts_with(reference)) {
        let at = accepted.iter().zip(reference).position(|(a, b)| a != b).unwrap_or(0);
        return fail("written_bytes_differ", format!("{what}: bytes accepted by the faulty writer differ from the fault-free stream at offset {at}"));
    }
    match (ok, terminal) {
        (true, false) => {
            if accepted != reference {
                return fail("written_bytes_differ", format!("{what}: serialize returned Ok under transparent faults but the writer holds {} bytes, fault-free stream has {}", accepted.len(), reference.len()));
            }
        }
        (true, true) => return fail("ok_despite_terminal_fault", format!("{what}: serialize returned Ok although the writer reported a terminal error ({} of {} bytes durable)", accepted.len(), reference.len())),
        (false, false) => return fail("err_on_transparent_fault", format!("{what}: serialize returned Err although only short writes / Interrupted were injected")),
        (false, true) => {
            if accepted.len() > reference.len() {
                return fail("written_bytes_differ", format!("{what}: more bytes written than the fault-free stream"));
            }
        }
    }
    Ok(())
}

/// Write `items` back to back through one faulty writer, then read them back
/// through one faulty reader (from the durable bytes if the writer crashed).
fn concat(cx: &mut Ctx, items: &[Item], w: &Plan, r: &Plan, tail: u8) -> R {
    // fault-free reference stream and per-item lengths
    let mut reference = Vec::new();
    let mut lens = Vec::new();
    for it in items {
        let (cal, model) = cx.w.item(*it);
        if model.is_empty() {
            cx.probes.hit("concat_with_empty_calendar");
        }
        let b = reference_bytes(cal)?;
        lens.push(b.len());
        reference.extend_from_slice(&b);
    }
    // 1. write
    let mut sw = SimWriter::new(w);
    let mut write_ok = true;
    let mut written_items = 0;
    for it in items {
        let (cal, _) = cx.w.item(*it);
        let before = cal.clone();
        if before != *cal {
            return fail("clone_not_equal", "a clone taken before serialize is != the original (equality is not set equality)".into());
        }
        let res = cal.serialize(&mut sw);
        if *cal != before {
            return fail("source_changed", "serialize changed the source calendar".into());
        }
        if res.is_err() {
            write_ok = false;
            break;
        }
        written_items += 1;
    }
    sw.log(&mut cx.fp);
    absorb_stream(cx, &sw.st);
    cx.sim.add("bytes_written", sw.st.bytes);
    check_write_outcome("calendar stream", write_ok, sw.st.terminal, &sw.accepted, &reference)?;
    if write_ok {
        if w.is_clean() && r.is_clean() {
            // nothing
        } else if !sw.st.terminal && sw.st.fired > 0 {
            cx.probes.hit("roundtrip_transparent_faults_only");
        }
    } else {
        cx.probes.hit("roundtrip_terminal_write");
        let cum: usize = lens.iter().take(written_items).sum();
        if sw.accepted.len() > cum {
            cx.probes.hit("writer_crashed_mid_calendar");
        }
    }
    // 2. read back what is durable (+ sentinel tail when the write completed)
    let mut data = sw.accepted;
    let tail_bytes: Vec<u8> = (0..tail).map(|i| 0xC3u8.wrapping_add(i)).collect();
    if write_ok {
        data.extend_from_slice(&tail_bytes);
    }
    read_back(cx, items, &lens, &data, r, write_ok.then_some(tail_bytes.as_slice()))
}

/// Read calendars one by one from `data` through a reader with plan `r`.
/// The i-th must equal item i if its bytes are completely available and no
/// terminal fault fired while reading it; otherwise the call must fail.
/// Reading through real std adaptors (Chain / BufReader / Take) stacked on simulated readers that inject
/// transparent faults only: every calendar must come back equal and what is left afterwards must be exactly the
/// sentinel tail.
fn read_back_std(cx: &mut Ctx, items: &[Item], data: &[u8], r: &Plan, tail_len: usize) -> R {
    use std::io::Read;
    let soft = Plan {
        acts: r.acts.iter().copied().filter(|(_, a)| matches!(a, crate::scenario::Act::Short(_) | crate::scenario::Act::Eintr)).collect(),
        max_chunk: r.max_chunk,
        ..Plan::default()
    };
    let cut = (r.cut as usize).min(data.len());
    let mut first = SimReader::new(&soft, &data[..if r.flavour == 1 { cut } else { data.len() }]);
    let mut second = SimReader::new(&soft, if r.flavour == 1 { &data[cut..] } else { &[] });
    let mut rest = Vec::new();
    let mut results = Vec::new();
    {
        // generic, not `dyn Read`: what std specialises per reader type (`size_hint`, `read_buf`, ...) must stay
        // visible to the code under test
        fn drive<R: Read>(mut rd: R, n: usize, results: &mut Vec<std::io::Result<CompactCalendar>>, rest: &mut Vec<u8>) {
            for _ in 0..n {
                results.push(CompactCalendar::deserialize(&mut rd));
            }
            loop {
                let mut b = [0u8; 64];
                match rd.read(&mut b) {
                    Ok(0) => break,
                    Ok(n) => rest.extend_from_slice(&b[..n]),
                    Err(e) if e.kind() == std::io::ErrorKind::Interrupted => {}
                    Err(_) => break,
                }
            }
        }
        macro_rules! run {
            ($rd:expr) => {
                drive($rd, items.len(), &mut results, &mut rest)
            };
        }
        match r.flavour {
            1 => {
                cx.probes.hit("read_through_std_chain");
                run!((&mut first).chain(&mut second))
            }
            2 => {
                cx.probes.hit("read_through_std_bufreader");
                run!(std::io::BufReader::with_capacity(cut + 1, &mut first))
            }
            3 => {
                cx.probes.hit("read_through_std_take");
                run!((&mut first).take(data.len() as u64))
            }
            // in-memory std readers only (they answer `size_hint`, `read_vectored`, `read_exact` with their own
            // specialisations); the fault is the short read every one of them makes at its seam
            4 => {
                cx.probes.hit("read_through_chain_of_slices");
                run!((&data[..cut]).chain(&data[cut..]))
            }
            5 => {
                cx.probes.hit("read_through_chain_of_bufreaders");
                let third = cut + (data.len() - cut) / 2;
                run!(std::io::BufReader::with_capacity(cut + 1, &data[..cut]).chain(std::io::Cursor::new(&data[cut..third])).chain(&data[third..]))
            }
            6 => {
                // a ring buffer whose content wraps at `cut`: `read` only ever returns the first of its two slices
                cx.probes.hit("read_through_wrapped_ring_buffer");
                let mut ring: std::collections::VecDeque<u8> = std::collections::VecDeque::with_capacity(data.len().max(1));
                let cap = ring.capacity();
                let back = data.len() - cut;
                // fill so that the head sits `back` bytes before the end of the allocation
                for _ in 0..cap.saturating_sub(back.min(cap)) {
                    ring.push_back(0);
                }
                for _ in 0..cap.saturating_sub(back.min(cap)) {
                    ring.pop_front();
                }
                ring.extend(data.iter().copied());
                run!(&mut ring)
            }
            _ => {
                cx.probes.hit("read_through_boxed_chain");
                let b: Box<std::io::Chain<&[u8], &[u8]>> = Box::new((&data[..cut]).chain(&data[cut..]));
                run!(b)
            }
        }
    }
    absorb_stream(cx, &first.st);
    absorb_stream(cx, &second.st);
    cx.sim.add("bytes_read", first.st.bytes + second.st.bytes);
    for (i, (res, it)) in results.into_iter().zip(items).enumerate() {
        let (cal, _) = cx.w.item(*it);
        match res {
            Ok(got) if got == *cal => {}
            Ok(got) => return fail("roundtrip_not_equal", format!("calendar #{i} read through a std adaptor (flavour {}) came back different ({} dates, wrote {})", r.flavour, got.count(), cal.count())),
            Err(e) => return fail("err_on_transparent_fault", format!("calendar #{i} read through a std adaptor (flavour {}, cut {cut}): Err({e}) although every byte was available", r.flavour)),
        }
    }
    if rest.len() != tail_len {
        return fail("consumed_wrong_length", format!("after reading all calendars through a std adaptor (flavour {}), {} bytes are left in the stream, the sentinel tail has {tail_len}", r.flavour, rest.len()));
    }
    Ok(())
}

fn read_back(cx: &mut Ctx, items: &[Item], lens: &[usize], data: &[u8], r: &Plan, tail: Option<&[u8]>) -> R {
    if r.flavour != 0 {
        // only for complete streams (the writer did not crash)
        if let Some(t) = tail {
            return read_back_std(cx, items, data, r, t.len());
        }
    }
    let mut sr = SimReader::new(r, data);
    let mut expected_pos = 0usize;
    let mut all_ok = true;
    for (i, it) in items.iter().enumerate() {
        sr.begin_op();
        let avail = sr.remaining();
        let res = CompactCalendar::deserialize(&mut sr);
        let complete = avail >= lens[i];
        let expect_ok = complete && !sr.st.terminal;
        if complete && sr.st.called_after_end {
            return fail(
                "extra_read_after_complete",
                format!("calendar #{i}: all {} bytes had been delivered and the stream was drained, yet the reader was called again (a drained non-blocking source answers that with WouldBlock, a pipe would block); result: {}", lens[i], if res.is_ok() { "Ok" } else { "Err" }),
            );
        }
        let (cal, model) = cx.w.item(*it);
        match (res, expect_ok) {
            (Ok(got), true) => {
                if got != *cal {
                    return fail("roundtrip_not_equal", format!("calendar #{i} of the stream deserialized to a different calendar ({} dates, wrote {})", got.count(), cal.count()));
                }
                check_agree(&got, model, "deserialized")?;
                expected_pos += lens[i];
                if sr.pos != expected_pos {
                    return fail("consumed_wrong_length", format!("after calendar #{i} the reader is at byte {}, the calendars written so far occupy {expected_pos}", sr.pos));
                }
                if sr.remaining() == 0 {
                    cx.probes.hit("reader_drained_to_boundary");
                }
            }
            (Ok(got), false) => {
                return fail(
                    "ok_despite_terminal_fault",
                    format!("calendar #{i}: deserialize returned Ok ({} dates) although {} (available {avail} of {} bytes)", got.count(), if complete { "the reader returned a hard error / premature end" } else { "its bytes were cut short" }, lens[i]),
                );
            }
            (Err(e), true) => {
                return fail("err_on_transparent_fault", format!("calendar #{i}: deserialize returned Err({e}) although all {} bytes were available and only short reads / Interrupted were injected", lens[i]));
            }
            (Err(_), false) => {
                cx.probes.hit("roundtrip_terminal_read");
                all_ok = false;
                break;
            }
        }
    }
    sr.log(&mut cx.fp);
    cx.sim.add("bytes_read", sr.st.bytes);
    let pos = sr.pos;
    let st = sr.st;
    absorb_stream(cx, &st);
    if all_ok {
        if let Some(t) = tail {
            // the sentinel must be exactly what is left (only when nothing truncated it)
            if r.capacity.is_none() && !st.terminal && &data[pos..] != t {
                return fail("consumed_wrong_length", format!("{} bytes left in the stream after the last calendar, the sentinel tail has {}", data.len() - pos, t.len()));
            }
        }
    }
    Ok(())
}

/// Crash-then-restart at prefix lengths of the fault-free concatenated stream.
fn crash_sweep(cx: &mut Ctx, items: &[Item], offsets: Option<&[u32]>, chunk: Option<u32>) -> R {
    let mut reference = Vec::new();
    let mut lens = Vec::new();
    for it in items {
        let (cal, _) = cx.w.item(*it);
        let b = reference_bytes(cal)?;
        lens.push(b.len());
        reference.extend_from_slice(&b);
    }
    let plan = Plan { acts: vec![], max_chunk: chunk, ..Plan::default() };
    let all: Vec<u32>;
    let offs: &[u32] = match offsets {
        Some(o) => o,
        None => {
            all = (0..=reference.len() as u32).collect();
            &all
        }
    };
    let mut bounds = vec![0usize];
    for l in &lens {
        bounds.push(bounds.last().unwrap() + l);
    }
    for &k in offs {
        let k = (k as usize).min(reference.len());
        cx.crash_points += 1;
        cx.faults.hit("crash_point");
        // classify the offset
        let seg = bounds.iter().rposition(|b| *b <= k).unwrap_or(0);
        let rel = k - bounds[seg];
        let (name, bit) = if rel == 0 {
            ("crash_at_boundary", 0)
        } else if rel < 4 {
            ("crash_in_header", 1)
        } else if rel < 12 {
            ("crash_in_length_word", 2)
        } else {
            ("crash_in_year_body", 3)
        };
        cx.probes.hit(name);
        cx.crash_classes |= 1 << bit;
        let prefix = &reference[..k];
        let mut sr = SimReader::new(&plan, prefix);
        let mut pos = 0usize;
        for (i, it) in items.iter().enumerate() {
            let complete = k >= bounds[i + 1];
            let res = CompactCalendar::deserialize(&mut sr);
            let (cal, _) = cx.w.item(*it);
            match (res, complete) {
                (Ok(got), true) => {
                    if got != *cal {
                        return fail("crash_wrong_calendar", format!("restart after a crash at byte {k}: calendar #{i} (wholly durable) read back different"));
                    }
                    pos += lens[i];
                    if sr.pos != pos {
                        return fail("consumed_wrong_length", format!("restart after a crash at byte {k}: after calendar #{i} reader at {} expected {pos}", sr.pos));
                    }
                }
                (Ok(got), false) => {
                    return fail("crash_accepted_torn_calendar", format!("restart after a crash at byte {k}: calendar #{i} was cut (needs bytes {}..{}) but deserialize returned Ok with {} dates", bounds[i], bounds[i + 1], got.count()));
                }
                (Err(e), true) => {
                    return fail("crash_lost_durable_calendar", format!("restart after a crash at byte {k}: calendar #{i} is wholly durable but deserialize returned Err({e})"));
                }
                (Err(_), false) => break,
            }
        }
        cx.sim.add("bytes_read", sr.st.bytes);
    }
    cx.fp.u64(offs.len() as u64);
    cx.fp.u64(reference.len() as u64);
    cx.sim.add("crash_points", offs.len() as u64);
    Ok(())
}
