//! Common machinery of the deterministic simulators (DESIGN.md section 3).
//!
//! * one integer decides everything: [`Rng`] is SplitMix64, every run derives
//!   its own independent stream from (VERIF_SEED, engine tag, run index);
//! * [`par_batch`] shards runs over worker threads; every aggregate is a
//!   commutative merge, so the result is independent of the worker count;
//! * [`Fp`] fingerprints event logs (FNV-1a 64);
//! * evidence / replay / known-findings file helpers.
//!
//! Nothing in here reads a clock or draws randomness except through `Rng`
//! (wall-clock is read once per batch, only to report `wall_s`).

use std::collections::{BTreeMap, BTreeSet};
use std::sync::atomic::{AtomicU64, Ordering};
use std::sync::Mutex;

pub use serde_json::{json, Value};

// ---------------------------------------------------------------------------
// PRNG
// ---------------------------------------------------------------------------

#[derive(Clone, Debug)]
pub struct Rng(u64);

#[inline]
fn splitmix(state: &mut u64) -> u64 {
    *state = state.wrapping_add(0x9E37_79B9_7F4A_7C15);
    let mut z = *state;
    z = (z ^ (z >> 30)).wrapping_mul(0xBF58_476D_1CE4_E5B9);
    z = (z ^ (z >> 27)).wrapping_mul(0x94D0_49BB_1331_11EB);
    z ^ (z >> 31)
}

pub fn mix(a: u64, b: u64) -> u64 {
    let mut s = a ^ b.wrapping_mul(0xD6E8_FEB8_6659_FD93).rotate_left(23);
    splitmix(&mut s)
}

impl Rng {
    pub fn new(seed: u64) -> Self {
        let mut s = seed;
        // warm up so that small seeds do not give correlated first outputs
        splitmix(&mut s);
        Rng(s)
    }

    /// Independent stream for run `idx` of engine `tag` under `seed`.
    pub fn derive(seed: u64, tag: u64, idx: u64) -> Self {
        Rng::new(mix(mix(seed, tag), idx))
    }

    /// A sub-stream that does not disturb this one's future draws more than one draw.
    pub fn fork(&mut self) -> Rng {
        Rng::new(self.u64())
    }

    #[inline]
    pub fn u64(&mut self) -> u64 {
        splitmix(&mut self.0)
    }

    /// Uniform in `0..n` (n > 0).
    #[inline]
    pub fn below(&mut self, n: u64) -> u64 {
        debug_assert!(n > 0);
        // multiply-shift; bias is < 2^-32 for the n used here and, more to the
        // point, it is deterministic.
        ((self.u64() as u128 * n as u128) >> 64) as u64
    }

    /// Uniform in `lo..=hi`.
    #[inline]
    pub fn range(&mut self, lo: i64, hi: i64) -> i64 {
        debug_assert!(lo <= hi);
        lo + self.below((hi - lo) as u64 + 1) as i64
    }

    #[inline]
    pub fn usize_below(&mut self, n: usize) -> usize {
        self.below(n as u64) as usize
    }

    /// True with probability num/den.
    #[inline]
    pub fn chance(&mut self, num: u64, den: u64) -> bool {
        self.below(den) < num
    }

    pub fn pick<'a, T>(&mut self, xs: &'a [T]) -> &'a T {
        &xs[self.usize_below(xs.len())]
    }

    /// Pick an index according to integer weights.
    pub fn weighted(&mut self, weights: &[u32]) -> usize {
        let total: u64 = weights.iter().map(|w| *w as u64).sum();
        let mut x = self.below(total.max(1));
        for (i, w) in weights.iter().enumerate() {
            if x < *w as u64 {
                return i;
            }
            x -= *w as u64;
        }
        weights.len() - 1
    }

    pub fn shuffle<T>(&mut self, xs: &mut [T]) {
        for i in (1..xs.len()).rev() {
            let j = self.usize_below(i + 1);
            xs.swap(i, j);
        }
    }
}

// ---------------------------------------------------------------------------
// Fingerprints
// ---------------------------------------------------------------------------

#[derive(Clone, Copy, Debug, PartialEq, Eq, PartialOrd, Ord, Hash)]
pub struct Fp(pub u64);

impl Default for Fp {
    fn default() -> Self {
        Fp(0xcbf2_9ce4_8422_2325)
    }
}

impl Fp {
    #[inline]
    pub fn bytes(&mut self, b: &[u8]) {
        for x in b {
            self.0 ^= *x as u64;
            self.0 = self.0.wrapping_mul(0x0000_0100_0000_01B3);
        }
    }
    #[inline]
    pub fn u64(&mut self, v: u64) {
        self.bytes(&v.to_le_bytes());
    }
    #[inline]
    pub fn i64(&mut self, v: i64) {
        self.bytes(&v.to_le_bytes());
    }
    #[inline]
    pub fn str(&mut self, s: &str) {
        self.u64(s.len() as u64);
        self.bytes(s.as_bytes());
    }
    #[inline]
    pub fn tag(&mut self, t: u8) {
        self.bytes(&[t]);
    }
    pub fn of_str(s: &str) -> u64 {
        let mut f = Fp::default();
        f.str(s);
        f.0
    }
}

// ---------------------------------------------------------------------------
// Counters (fault kinds fired, probes hit, ...)
// ---------------------------------------------------------------------------

#[derive(Clone, Debug, Default)]
pub struct Counters(pub BTreeMap<&'static str, u64>);

impl Counters {
    #[inline]
    pub fn hit(&mut self, k: &'static str) {
        *self.0.entry(k).or_insert(0) += 1;
    }
    #[inline]
    pub fn add(&mut self, k: &'static str, n: u64) {
        *self.0.entry(k).or_insert(0) += n;
    }
    pub fn get(&self, k: &str) -> u64 {
        self.0.get(k).copied().unwrap_or(0)
    }
    pub fn merge(&mut self, other: &Counters) {
        for (k, v) in &other.0 {
            *self.0.entry(k).or_insert(0) += *v;
        }
    }
    pub fn to_json(&self) -> Value {
        Value::Object(self.0.iter().map(|(k, v)| (k.to_string(), json!(v))).collect())
    }
    /// Declare keys so that a probe stuck at zero is visible in the evidence.
    pub fn declare(&mut self, keys: &[&'static str]) {
        for k in keys {
            self.0.entry(k).or_insert(0);
        }
    }
}

// ---------------------------------------------------------------------------
// Batch runner
// ---------------------------------------------------------------------------

/// Per-worker aggregate; merged commutatively.
#[derive(Default)]
pub struct Agg {
    pub runs: u64,
    pub faults: Counters,
    pub probes: Counters,
    /// fingerprints of runs that were non-trivial by the engine's rule
    pub nontrivial_fps: Vec<u64>,
    /// engine-defined abstract state signatures
    pub states: BTreeSet<u64>,
    /// order-independent digest of (idx, run fingerprint) over all runs
    pub batch_fp: u64,
    /// engine-defined "simulated time" quantities
    pub sim: Counters,
    /// samples keyed by run index (lowest indices win)
    pub samples: BTreeMap<u64, Value>,
    /// violations keyed by run index
    pub violations: BTreeMap<u64, Violation>,
    /// known findings matched: signature -> (count, first description)
    pub known: BTreeMap<String, (u64, String)>,
    /// fingerprints of the first DETERMINISM_SAMPLE runs, for the built-in re-execution check
    pub low_fps: BTreeMap<u64, u64>,
    /// (pairs checked, mismatching run indices) of the built-in determinism re-execution
    pub determinism: (u64, Vec<u64>),
}

pub const DETERMINISM_SAMPLE: u64 = 128;

#[derive(Clone, Debug)]
pub struct Violation {
    pub run: u64,
    pub class: String,
    pub detail: String,
    /// the explicit scenario (already minimised if the engine did so)
    pub scenario: Value,
}

impl Agg {
    pub fn merge(&mut self, mut o: Agg, max_samples: usize) {
        self.runs += o.runs;
        self.faults.merge(&o.faults);
        self.probes.merge(&o.probes);
        self.sim.merge(&o.sim);
        self.nontrivial_fps.append(&mut o.nontrivial_fps);
        self.states.append(&mut o.states);
        self.batch_fp = self.batch_fp.wrapping_add(o.batch_fp);
        self.samples.append(&mut o.samples);
        while self.samples.len() > max_samples {
            let k = *self.samples.keys().next_back().unwrap();
            self.samples.remove(&k);
        }
        self.violations.append(&mut o.violations);
        self.low_fps.append(&mut o.low_fps);
        for (k, (n, d)) in o.known {
            let e = self.known.entry(k).or_insert((0, d));
            e.0 += n;
        }
    }

    pub fn note_run(&mut self, idx: u64, fp: u64, nontrivial: bool) {
        self.runs += 1;
        self.batch_fp = self.batch_fp.wrapping_add(mix(idx, fp));
        if idx < DETERMINISM_SAMPLE {
            self.low_fps.insert(idx, fp);
        }
        if nontrivial {
            self.nontrivial_fps.push(fp);
        }
    }

    pub fn sample(&mut self, idx: u64, v: impl FnOnce() -> Value, max_samples: usize) {
        if self.samples.len() < max_samples || self.samples.keys().next_back().map_or(false, |k| idx < *k) {
            self.samples.insert(idx, v());
            while self.samples.len() > max_samples {
                let k = *self.samples.keys().next_back().unwrap();
                self.samples.remove(&k);
            }
        }
    }

    /// Built-in determinism proof on a sample: re-execute the first runs (same
    /// seed, same index, fresh state) and compare event-log fingerprints.
    pub fn recheck_determinism(&mut self, rerun: impl Fn(u64) -> u64) {
        if !self.violations.is_empty() {
            return;
        }
        let mut bad = Vec::new();
        let mut n = 0;
        for (idx, fp) in &self.low_fps {
            n += 1;
            if rerun(*idx) != *fp {
                bad.push(*idx);
            }
        }
        self.determinism = (n, bad);
    }

    pub fn distinct_nontrivial(&mut self) -> u64 {
        self.nontrivial_fps.sort_unstable();
        self.nontrivial_fps.dedup();
        self.nontrivial_fps.len() as u64
    }
}

std::thread_local! {
    static MY_SLOT: std::cell::RefCell<Option<(std::sync::Arc<(AtomicU64, AtomicU64)>, std::sync::Arc<AtomicU64>)>> = const { std::cell::RefCell::new(None) };
    static MINIMISE_DEADLINE: std::cell::Cell<Option<std::time::Instant>> = const { std::cell::Cell::new(None) };
}

/// Called by an engine when a run has returned and only the harness's own post-processing of a violation is
/// left (minimisation, confirmation of the replay file): the watchdog must not take that for a run of the system
/// under test that never returns. Candidates executed from here on are bounded one by one (`with_timeout`), and
/// the minimiser as a whole by a wall-clock budget that can only make the replay file longer, never change a verdict.
/// With `stop_others` the batch's other workers are told at once to skip runs beyond this one (what they would be
/// told anyway when the violation is recorded, only earlier: they need not minimise violations nobody will report).
pub fn post_processing_begins(minimise_budget_s: u64, stop_others: bool) {
    MY_SLOT.with(|s| {
        if let Some((slot, stop_at)) = s.borrow().as_ref() {
            let idx = slot.0.swap(u64::MAX, Ordering::AcqRel);
            if stop_others && idx != u64::MAX {
                stop_at.fetch_min(idx, Ordering::Relaxed);
            }
        }
    });
    MINIMISE_DEADLINE.with(|d| d.set(Some(std::time::Instant::now() + std::time::Duration::from_secs(minimise_budget_s))));
}

/// true once the minimiser's wall-clock budget is used up (its candidates then count as "does not fail")
pub fn minimise_expired() -> bool {
    MINIMISE_DEADLINE.with(|d| d.get().map_or(false, |t| std::time::Instant::now() > t))
}

/// Run `runs` simulated executions on `workers` threads. `f(idx, agg)` executes
/// run `idx` and records into the worker's aggregate. Once a violation has
/// been recorded at index v, runs with a larger index are skipped (all smaller
/// ones still execute), so the reported first violation is the lowest-index
/// one whatever the worker count.
///
/// Bounded liveness: a watchdog thread observes how long each worker has been
/// inside its current run; a run that does not return within
/// `VERIF_RUN_TIMEOUT_S` (default 120 s, four orders of magnitude above a
/// normal run) is reported through `on_hang(idx)`, which must not return.
pub fn par_batch_watched<F, H>(runs: u64, workers: usize, max_samples: usize, f: F, on_hang: H) -> Agg
where
    F: Fn(u64, &mut Agg) + Sync,
    H: Fn(u64) + Sync,
{
    let next = AtomicU64::new(0);
    let stop_at = std::sync::Arc::new(AtomicU64::new(u64::MAX));
    let total = Mutex::new(Agg::default());
    let workers = workers.max(1);
    let t0 = std::time::Instant::now();
    // (current run index or u64::MAX, start in ms since t0)
    let slots: Vec<std::sync::Arc<(AtomicU64, AtomicU64)>> = (0..workers).map(|_| std::sync::Arc::new((AtomicU64::new(u64::MAX), AtomicU64::new(0)))).collect();
    let live = AtomicU64::new(workers as u64);
    let timeout_ms = run_timeout().as_millis() as u64;
    const CHUNK: u64 = 64;
    std::thread::scope(|s| {
        for w in 0..workers {
            let (next, stop_at, total, slots, live, f) = (&next, &stop_at, &total, &slots, &live, &f);
            s.spawn(move || {
                MY_SLOT.with(|m| *m.borrow_mut() = Some((slots[w].clone(), stop_at.clone())));
                let mut agg = Agg::default();
                loop {
                    let start = next.fetch_add(CHUNK, Ordering::Relaxed);
                    if start >= runs {
                        break;
                    }
                    for idx in start..(start + CHUNK).min(runs) {
                        if idx > stop_at.load(Ordering::Relaxed) {
                            continue;
                        }
                        slots[w].1.store(t0.elapsed().as_millis() as u64, Ordering::Relaxed);
                        slots[w].0.store(idx, Ordering::Release);
                        let before = agg.violations.len();
                        // the engines catch panics of the system under test themselves; one that arrives here is
                        // the harness's own and must not be mistaken for a run that never returns
                        if let Err(e) = std::panic::catch_unwind(std::panic::AssertUnwindSafe(|| f(idx, &mut agg))) {
                            let msg = e.downcast_ref::<String>().cloned().or_else(|| e.downcast_ref::<&str>().map(|s| s.to_string())).unwrap_or_default();
                            println!("harness error: run {idx} panicked outside the system under test: {msg}");
                            std::process::exit(2);
                        }
                        slots[w].0.store(u64::MAX, Ordering::Release);
                        if agg.violations.len() > before {
                            stop_at.fetch_min(idx, Ordering::Relaxed);
                        }
                    }
                }
                total.lock().unwrap().merge(agg, max_samples);
                live.fetch_sub(1, Ordering::Release);
            });
        }
        // watchdog (reads a real clock: it can only turn a hang into a verdict, never change a result)
        let (slots, live, on_hang) = (&slots, &live, &on_hang);
        s.spawn(move || {
            while live.load(Ordering::Acquire) > 0 {
                std::thread::sleep(std::time::Duration::from_millis(100));
                let now = t0.elapsed().as_millis() as u64;
                for slot in slots.iter() {
                    let (idx, start) = (&slot.0, &slot.1);
                    let i = idx.load(Ordering::Acquire);
                    if i != u64::MAX && now.saturating_sub(start.load(Ordering::Relaxed)) > timeout_ms && idx.load(Ordering::Acquire) == i {
                        on_hang(i);
                        std::process::exit(1);
                    }
                }
            }
        });
    });
    let mut agg = total.into_inner().unwrap();
    // keep only what is independent of the worker count: drop anything that
    // ran beyond the first violation
    if let Some((&first, _)) = agg.violations.iter().next() {
        agg.violations.retain(|k, _| *k == first);
    }
    agg
}

pub fn par_batch<F>(runs: u64, workers: usize, max_samples: usize, f: F) -> Agg
where
    F: Fn(u64, &mut Agg) + Sync,
{
    par_batch_watched(runs, workers, max_samples, f, |idx| {
        println!("harness error: run {idx} did not finish within the run timeout and the engine registered no hang reporter");
        std::process::exit(2);
    })
}

pub fn run_timeout() -> std::time::Duration {
    std::time::Duration::from_secs(env_u64("VERIF_RUN_TIMEOUT_S", 120))
}

/// Report a run that did not terminate: writes the replay file, prints the
/// VIOLATION line and exits 1.
pub fn report_hang(property: &str, seed: u64, idx: u64, scenario: Value) -> ! {
    let root = verif_root();
    let path = root.join("replays").join(format!("{property}-seed{seed}-run{idx}.json"));
    let detail = format!("run did not return within {} s (bounded liveness: every simulated run must terminate)", run_timeout().as_secs());
    write_json(&path, &json!({"property": property, "seed": seed, "run": idx, "class": "hang", "detail": detail, "scenario": scenario}));
    println!("VIOLATION property={property} replay={}", path.display());
    println!("  class=hang run={idx} seed={seed}");
    println!("  detail: {detail}");
    std::process::exit(1)
}

/// Run `f` on a helper thread; None if it does not finish within the run timeout.
/// Run `f` on a thread of its own: whatever the system under test keeps in thread-locals starts from its initial
/// state, so that a run (and every candidate of the minimiser) is a function of its scenario only, whichever worker
/// executes it and whatever ran on that worker before. A panic of `f` is re-raised in the caller.
pub fn fresh_thread<R: Send>(f: impl FnOnce() -> R + Send) -> R {
    std::thread::scope(|s| match std::thread::Builder::new().stack_size(16 << 20).spawn_scoped(s, f).expect("spawn").join() {
        Ok(r) => r,
        Err(e) => std::panic::resume_unwind(e),
    })
}

/// Does `bin/check replay` of this scenario report a violation in a fresh process? (Process-wide state a change
/// adds to the system under test survives from run to run inside a batch process; a replay file must not depend on
/// it.) `Some(true)`: violation reproduced, `Some(false)`: no violation, `None`: could not tell.
pub fn reproduces_in_fresh_process(property: &str, class: &str, scenario: &Value, tag: u64) -> Option<bool> {
    let dir = verif_root().join("target").join("tmp-replays");
    let _ = std::fs::create_dir_all(&dir);
    let path = dir.join(format!("{property}-{}-{tag}.json", std::process::id()));
    write_json(&path, &json!({"property": property, "class": class, "scenario": scenario}));
    let exe = std::env::current_exe().ok()?;
    let out = std::process::Command::new(exe).arg("replay").arg(&path).stdin(std::process::Stdio::null()).output().ok();
    let _ = std::fs::remove_file(&path);
    match out?.status.code() {
        Some(1) => Some(true),
        Some(0) => Some(false),
        _ => None,
    }
}

pub fn with_timeout<R: Send + 'static>(f: impl FnOnce() -> R + Send + 'static) -> Option<R> {
    let (tx, rx) = std::sync::mpsc::channel();
    std::thread::Builder::new()
        .stack_size(16 << 20)
        .spawn(move || {
            let _ = tx.send(f());
        })
        .expect("spawn");
    match rx.recv_timeout(run_timeout()) {
        Ok(r) => Some(r),
        Err(std::sync::mpsc::RecvTimeoutError::Timeout) => None,
        Err(std::sync::mpsc::RecvTimeoutError::Disconnected) => {
            println!("harness error: the helper thread panicked outside the system under test");
            std::process::exit(2)
        }
    }
}

// ---------------------------------------------------------------------------
// Environment / CLI helpers
// ---------------------------------------------------------------------------

pub fn env_u64(name: &str, default: u64) -> u64 {
    match std::env::var(name) {
        // any integer is accepted (negative or beyond u64 wraps: it only seeds a PRNG)
        Ok(v) if !v.trim().is_empty() => v.trim().parse::<i128>().map(|x| x as u64).unwrap_or_else(|_| {
            eprintln!("harness error: {name}={v:?} is not an integer");
            std::process::exit(2)
        }),
        _ => default,
    }
}

pub fn verif_seed() -> u64 {
    env_u64("VERIF_SEED", 1)
}

pub fn workers() -> usize {
    env_u64("VERIF_WORKERS", 16) as usize
}

pub fn verif_root() -> std::path::PathBuf {
    std::env::var_os("VERIF_ROOT").map(Into::into).unwrap_or_else(|| "/verif".into())
}

/// `quick` / `thorough`; VERIF_TIER overrides the CLI argument.
pub fn tier(cli: Option<&str>) -> String {
    let t = std::env::var("VERIF_TIER").ok().filter(|s| !s.is_empty()).or(cli.map(str::to_string)).unwrap_or_else(|| "quick".into());
    match t.as_str() {
        "quick" | "thorough" => t,
        // smoke is for the harness's own tests; it is reported as quick
        "smoke" => t,
        other => {
            eprintln!("harness error: unknown tier {other:?}");
            std::process::exit(2)
        }
    }
}

pub fn write_json(path: &std::path::Path, v: &Value) {
    if let Some(p) = path.parent() {
        let _ = std::fs::create_dir_all(p);
    }
    let tmp = path.with_extension("json.tmp");
    let s = serde_json::to_string_pretty(v).expect("json");
    if let Err(e) = std::fs::write(&tmp, s).and_then(|_| std::fs::rename(&tmp, path)) {
        eprintln!("harness error: cannot write {}: {e}", path.display());
        std::process::exit(2);
    }
}

pub fn read_json(path: &std::path::Path) -> Value {
    let s = std::fs::read_to_string(path).unwrap_or_else(|e| {
        eprintln!("harness error: cannot read {}: {e}", path.display());
        std::process::exit(2)
    });
    serde_json::from_str(&s).unwrap_or_else(|e| {
        eprintln!("harness error: {} is not JSON: {e}", path.display());
        std::process::exit(2)
    })
}

// ---------------------------------------------------------------------------
// Known findings
// ---------------------------------------------------------------------------

/// `/verif/known_findings.json`: { "known": [ {property, signature, what} ], "fixed": [ "fixed: property=.. <commit> <what>" ] }
/// A violation is suppressed only if its (property, signature) matches a `known` entry exactly.
pub struct KnownFindings {
    known: BTreeMap<(String, String), String>,
}

impl KnownFindings {
    pub fn load() -> Self {
        let p = verif_root().join("known_findings.json");
        let mut known = BTreeMap::new();
        if p.exists() {
            let v = read_json(&p);
            if let Some(a) = v.get("known").and_then(|k| k.as_array()) {
                for e in a {
                    let prop = e["property"].as_str().unwrap_or("").to_string();
                    let sig = e["signature"].as_str().unwrap_or("").to_string();
                    let what = e["what"].as_str().unwrap_or("").to_string();
                    known.insert((prop, sig), what);
                }
            }
        }
        KnownFindings { known }
    }
    pub fn matches(&self, property: &str, signature: &str) -> Option<&str> {
        self.known.get(&(property.to_string(), signature.to_string())).map(|s| s.as_str())
    }
}

// ---------------------------------------------------------------------------
// Reporting
// ---------------------------------------------------------------------------

pub struct Report<'a> {
    pub property: &'a str,
    pub tier: &'a str,
    pub seed: u64,
    pub level: &'a str,
    pub rule: String,
    pub components: Value,
    pub assumptions: Vec<String>,
    pub extra: Value,
    pub wall_s: f64,
    pub exhaustive: Option<bool>,
}

/// Writes the evidence file and the replay file (if any), prints the verdict
/// lines and returns the process exit code.
pub fn finish(rep: Report, agg: Agg) -> i32 {
    let stem = rep.property.to_string();
    finish_as(rep, agg, &stem)
}

/// Like [`finish`] but writes the evidence to `evidence/<file_stem>.json`
/// (used by checks whose evidence file is assembled from several parts).
pub fn finish_as(rep: Report, mut agg: Agg, file_stem: &str) -> i32 {
    let root = verif_root();
    let distinct = agg.distinct_nontrivial();
    let tier = if rep.tier == "smoke" { "quick" } else { rep.tier };
    let mut violations = 0;
    let mut exit = 0;
    for (k, (n, d)) in &agg.known {
        println!("KNOWN-FINDING: property={} {} [signature={} occurrences={}]", rep.property, d, k, n);
    }
    let mut replay_paths = vec![];
    for (idx, v) in &agg.violations {
        violations += 1;
        exit = 1;
        let path = root.join("replays").join(format!("{}-seed{}-run{}.json", rep.property, rep.seed, idx));
        let body = json!({
            "property": rep.property,
            "seed": rep.seed,
            "run": idx,
            "class": v.class,
            "detail": v.detail,
            "scenario": v.scenario,
        });
        write_json(&path, &body);
        println!("VIOLATION property={} replay={}", rep.property, path.display());
        println!("  class={} run={} seed={}", v.class, idx, rep.seed);
        println!("  detail: {}", v.detail);
        replay_paths.push(path.display().to_string());
    }
    if !agg.determinism.1.is_empty() {
        // the same seed and run index gave two different event logs: the harness (or the code under
        // test) has a source of nondeterminism the simulator does not own -- nothing this run reports
        // can be replayed, so it is a harness error, not a verdict
        println!("harness error: re-executing runs {:?} (same seed) gave different event-log fingerprints", &agg.determinism.1[..agg.determinism.1.len().min(8)]);
        exit = exit.max(2);
    }
    let wall = rep.wall_s.max(1e-9);
    let mut coverage = json!({
        "evaluations": agg.runs,
        "distinct_nontrivial": distinct,
        "rule": rep.rule,
        "samples": agg.samples.iter().map(|(k, v)| json!({"run": k, "case": v})).collect::<Vec<_>>(),
        "runs_per_hour": (agg.runs as f64 / wall * 3600.0) as u64,
        "seeds": { "verif_seed": rep.seed, "run_indices": [0, agg.runs.saturating_sub(1)], "derivation": "stream(run) = splitmix64(mix(mix(VERIF_SEED, engine_tag), run))" },
        "simulated_time": agg.sim.to_json(),
        "faults_fired": agg.faults.to_json(),
        "probes": agg.probes.to_json(),
        "distinct_states": agg.states.len(),
        "components": rep.components,
        "batch_fingerprint": format!("{:016x}", agg.batch_fp),
        "determinism_pairs_checked": agg.determinism.0,
        "determinism_mismatches": agg.determinism.1.len(),
        "known_findings_matched": agg.known.iter().map(|(k, (n, _))| json!({"signature": k, "occurrences": n})).collect::<Vec<_>>(),
        "replays": replay_paths,
    });
    if let Some(e) = rep.exhaustive {
        coverage["exhaustive"] = json!(e);
    }
    if let (Some(c), Some(x)) = (coverage.as_object_mut(), rep.extra.as_object()) {
        for (k, v) in x {
            c.insert(k.clone(), v.clone());
        }
    }
    let ev = json!({
        "property_id": rep.property,
        "tier": tier,
        "seed": rep.seed,
        "level": rep.level,
        "coverage": coverage,
        "assumptions": rep.assumptions,
        "wall_s": rep.wall_s,
        "violations": violations,
    });
    write_json(&root.join("evidence").join(format!("{file_stem}.json")), &ev);
    println!(
        "{} tier={} seed={} runs={} distinct_nontrivial={} states={} violations={} known={} wall={:.1}s fp={:016x}",
        rep.property,
        rep.tier,
        rep.seed,
        agg.runs,
        distinct,
        agg.states.len(),
        violations,
        agg.known.len(),
        rep.wall_s,
        agg.batch_fp
    );
    exit
}

/// Generic delta-debugging over a list: tries to remove chunks while `test`
/// (returns true when the failure persists) still holds.
pub fn ddmin<T: Clone>(items: &[T], mut test: impl FnMut(&[T]) -> bool) -> Vec<T> {
    let mut cur: Vec<T> = items.to_vec();
    let mut n = 2usize;
    while cur.len() >= 2 {
        let chunk = (cur.len() + n - 1) / n;
        let mut reduced = false;
        let mut i = 0;
        while i < cur.len() {
            let mut cand = cur.clone();
            let end = (i + chunk).min(cand.len());
            cand.drain(i..end);
            if !cand.is_empty() && test(&cand) {
                cur = cand;
                n = n.saturating_sub(1).max(2);
                reduced = true;
                break;
            }
            i += chunk;
        }
        if !reduced {
            if chunk <= 1 {
                break;
            }
            n = (n * 2).min(cur.len());
        }
    }
    // final single-element pass
    let mut i = 0;
    while cur.len() > 1 && i < cur.len() {
        let mut cand = cur.clone();
        cand.remove(i);
        if test(&cand) {
            cur = cand;
        } else {
            i += 1;
        }
    }
    if cur.len() == 1 && test(&[]) {
        cur.clear();
    }
    cur
}

/// Catch a panic and turn it into an error string (used so that a panic in the
/// system under test is a reported violation, not a harness crash).
pub fn catch<R>(f: impl FnOnce() -> R) -> Result<R, String> {
    match std::panic::catch_unwind(std::panic::AssertUnwindSafe(f)) {
        Ok(r) => Ok(r),
        Err(e) => Err(if let Some(s) = e.downcast_ref::<&str>() {
            s.to_string()
        } else if let Some(s) = e.downcast_ref::<String>() {
            s.clone()
        } else {
            "panic".to_string()
        }),
    }
}

pub fn silence_panics() {
    std::panic::set_hook(Box::new(|_| {}));
}
