//! Engine E2 leg B — scenarios interpreted by Miri: the *shipped* code (guard
//! off) with the real std `LazyLock` / `Once` / `Arc`, real std threads, under
//! Miri's seeded scheduler with preemption anywhere (`-Zmiri-seed`,
//! `-Zmiri-preemption-rate`). Miri reports data races, UB and deadlocks; the
//! scenario itself compares every result across threads and with a post-join
//! sequential evaluation.
//!
//! usage: miri-scn <shared-eval|lazy-holidays|sun-coords|many-threads> <workload seed>
//! (scenario and workload seed come through argv, never through plain env)

use std::sync::Arc;
use std::thread;

use chrono::{NaiveDate, NaiveDateTime, TimeZone};
use opening_hours::localization::{Country, TzLocation};
use opening_hours::{Context, OpeningHours};

struct Rng(u64);
impl Rng {
    fn next(&mut self) -> u64 {
        self.0 = self.0.wrapping_add(0x9E37_79B9_7F4A_7C15);
        let mut z = self.0;
        z = (z ^ (z >> 30)).wrapping_mul(0xBF58_476D_1CE4_E5B9);
        z = (z ^ (z >> 27)).wrapping_mul(0x94D0_49BB_1331_11EB);
        z ^ (z >> 31)
    }
    fn below(&mut self, n: u64) -> u64 {
        self.next() % n
    }
}

const EXPRS: &[&str] = &[
    "Mo-Fr 09:00-17:00; Sa 10:00-12:00",
    "24/7",
    "easter -2 days-easter +1 day: 09:00-20:00",
    "Mo-Su 10:00-02:00 \"late\"",
    "Mo-Fr 09:00-17:00 || \"call\"",
    "week 01-53/2 Mo 10:00-12:00; PH off",
    "sunrise-sunset",
    "2024 easter-2024 Dec 24 10:00-18:00",
];

fn t(i: u64) -> NaiveDateTime {
    let d = [(2024, 3, 29, 8, 0), (2024, 10, 27, 0, 59), (2024, 6, 15, 12, 34), (2025, 1, 1, 0, 0)][(i % 4) as usize];
    NaiveDate::from_ymd_opt(d.0, d.1, d.2).unwrap().and_hms_opt(d.3, d.4, 30).unwrap()
}

#[derive(Clone)]
enum V {
    N(OpeningHours),
    Z(OpeningHours<TzLocation<chrono_tz::Tz>>),
}

fn op(v: &V, kind: u64, ti: u64) -> String {
    let at = t(ti);
    match v {
        V::N(oh) => match kind % 5 {
            0 => format!("{:?}", oh.state(at)),
            1 => format!("{:?}", oh.next_change(at)),
            2 => oh.iter_from(at).take(4).map(|r| format!("{:?}", r)).collect(),
            3 => oh.normalize().to_string(),
            _ => oh.to_string(),
        },
        V::Z(oh) => {
            let at = chrono_tz::Europe::Paris.from_utc_datetime(&at);
            match kind % 5 {
                0 => format!("{:?}", oh.state(at)),
                1 => format!("{:?}", oh.next_change(at)),
                2 => oh.iter_from(at).take(4).map(|r| format!("{:?}", r)).collect(),
                3 => oh.normalize().to_string(),
                _ => oh.to_string(),
            }
        }
    }
}

fn shared_eval(seed: u64) -> Result<String, String> {
    let mut rng = Rng(seed);
    // shared values, built on the main thread
    let shared: Arc<Vec<V>> = Arc::new(
        (0..3)
            .map(|i| {
                let e = EXPRS[rng.below(EXPRS.len() as u64) as usize];
                let oh = OpeningHours::parse(e).unwrap();
                if i == 2 {
                    V::Z(oh.with_context(Context::default().with_locale(TzLocation::new(chrono_tz::Europe::Paris))))
                } else {
                    V::N(oh)
                }
            })
            .collect(),
    );
    // per-thread programs: (what, value index or expression index, op kind, instant)
    let progs: Vec<Vec<(u64, u64, u64, u64)>> = (0..3).map(|_| (0..4).map(|_| (rng.below(4), rng.below(8), rng.below(5), rng.below(4))).collect()).collect();
    let run = |prog: &[(u64, u64, u64, u64)], shared: &Arc<Vec<V>>| -> Vec<String> {
        prog.iter()
            .map(|(what, i, k, ti)| match what {
                // shared value
                0 | 1 => op(&shared[(*i % 3) as usize], *k, *ti),
                // clone of a shared value, dropped afterwards
                2 => {
                    let c = shared[(*i % 3) as usize].clone();
                    op(&c, *k, *ti)
                }
                // parse (Easter expressions go through the Once) and evaluate a private value
                _ => {
                    let e = EXPRS[(*i % EXPRS.len() as u64) as usize];
                    match OpeningHours::parse(e) {
                        Ok(oh) => op(&V::N(oh), *k, *ti),
                        Err(_) => "Err".into(),
                    }
                }
            })
            .collect()
    };
    // an iterator created and advanced on the main thread is handed to thread 0, which finishes it
    let (tx, rx) = std::sync::mpsc::channel::<Box<dyn Iterator<Item = String> + Send>>();
    let hand_idx = rng.below(2) as usize;
    let hand_t = rng.below(4);
    let hand_k = rng.below(3) as usize;
    let mut hand_first: Vec<String> = Vec::new();
    if let V::N(oh) = &shared[hand_idx] {
        let mut it: Box<dyn Iterator<Item = String> + Send> = Box::new(oh.iter_from(t(hand_t)).map(|r| format!("{r:?}")));
        for _ in 0..hand_k {
            hand_first.extend(it.next());
        }
        tx.send(it).map_err(|_| "send failed".to_string())?;
    }
    drop(tx);
    let mut rx = Some(rx);
    let handles: Vec<_> = progs
        .iter()
        .cloned()
        .enumerate()
        .map(|(i, p)| {
            let sh = shared.clone();
            let rx = if i == 0 { rx.take() } else { None };
            thread::spawn(move || {
                let mut out = run(&p, &sh);
                if let Some(rx) = rx {
                    if let Ok(it) = rx.recv() {
                        out.push(it.take(3).collect::<String>());
                    }
                }
                out
            })
        })
        .collect();
    let mut got: Vec<Vec<String>> = handles.into_iter().map(|h| h.join().map_err(|_| "thread panicked".to_string())).collect::<Result<_, _>>()?;
    // the handed-off iterator must continue exactly where a sequential one would
    if let V::N(oh) = &shared[hand_idx] {
        let all: Vec<String> = oh.iter_from(t(hand_t)).map(|r| format!("{r:?}")).take(hand_k + 3).collect();
        let cont = got[0].pop().unwrap_or_default();
        let joined: String = hand_first.iter().cloned().chain(std::iter::once(cont)).collect();
        if joined != all.concat() {
            return Err(format!("iterator handed to another thread after {hand_k} steps continued with a different stream: {joined} vs {}", all.concat()));
        }
    }
    // post-join sequential evaluation
    for (ti, p) in progs.iter().enumerate() {
        let want = run(p, &shared);
        if want != got[ti] {
            return Err(format!("thread {ti}: concurrent results {:?} differ from the sequential evaluation {:?}", got[ti], want));
        }
    }
    let mut h = 0xcbf29ce484222325u64;
    for s in got.iter().flatten() {
        for b in s.bytes() {
            h = (h ^ b as u64).wrapping_mul(0x100000001b3);
        }
    }
    Ok(format!("{h:016x}"))
}

fn lazy_holidays(seed: u64) -> Result<String, String> {
    let mut rng = Rng(seed);
    let all = Country::ALL;
    let picks: Vec<Country> = (0..3).map(|_| all[rng.below(all.len() as u64) as usize]).collect();
    let day = NaiveDate::from_ymd_opt(2024, 1, 1).unwrap();
    let eval = move |c: Country| -> String {
        let h = c.holidays();
        let oh = OpeningHours::parse("PH off; Mo-Su 10:00-12:00").unwrap().with_context(Context::default().with_holidays(h.clone()));
        format!("{} {} {:?} {:?}", h.get_public().count(), h.get_school().count(), h.get_public().first_after(day), oh.state(day.and_hms_opt(11, 0, 0).unwrap()))
    };
    let handles: Vec<_> = picks.iter().copied().map(|c| thread::spawn(move || eval(c))).collect();
    let got: Vec<String> = handles.into_iter().map(|h| h.join().map_err(|_| "thread panicked".to_string())).collect::<Result<_, _>>()?;
    for (c, g) in picks.iter().zip(&got) {
        let want = eval(*c);
        if &want != g {
            return Err(format!("{c:?}: concurrent first use returned {g:?}, a later sequential call returns {want:?}"));
        }
    }
    Ok(got.join("|"))
}

/// Several places evaluated for the same days at the same time: sun events are
/// computed per (place, day, event); any process-wide memo of them is hit by all
/// threads with colliding keys.
fn sun_coords(seed: u64) -> Result<String, String> {
    use opening_hours::localization::Coordinates;
    let mut rng = Rng(seed);
    const PLACES: &[(f64, f64)] = &[(48.8535, 2.3484), (40.7128, -74.006), (35.6762, 139.6503), (-33.8688, 151.2093), (52.52, 13.405)];
    let n_threads = 3;
    let first = rng.below(PLACES.len() as u64) as usize;
    let places: Vec<(f64, f64)> = (0..n_threads).map(|i| PLACES[(first + i) % PLACES.len()]).collect();
    let base = NaiveDate::from_ymd_opt(2024, 1 + rng.below(12) as u32, 1 + rng.below(28) as u32).unwrap();
    let dates: Vec<NaiveDate> = (0..3).map(|i| base + chrono::TimeDelta::days(i)).collect();
    let expr = ["sunrise-sunset", "dawn-dusk", "(sunrise+01:00)-(sunset-00:30)"][rng.below(3) as usize];
    let make = |p: (f64, f64)| OpeningHours::parse(expr).unwrap().with_context(Context::default().with_locale(TzLocation::new(chrono_tz::UTC).with_coords(Coordinates::new(p.0, p.1).unwrap())));
    let render = |oh: &OpeningHours<TzLocation<chrono_tz::Tz>>, d: NaiveDate| -> String { oh.schedule_at(d).into_iter().map(|r| format!("[{}-{} {:?}]", r.range.start, r.range.end, r.kind)).collect() };
    // sequential reference first
    let expected: Vec<Vec<String>> = places.iter().map(|p| dates.iter().map(|d| render(&make(*p), *d)).collect()).collect();
    let handles: Vec<_> = places
        .iter()
        .copied()
        .map(|p| {
            let dates = dates.clone();
            thread::spawn(move || {
                let oh = make(p);
                let mut out = Vec::new();
                for _round in 0..2 {
                    for d in &dates {
                        out.push(render(&oh, *d));
                    }
                }
                out
            })
        })
        .collect();
    let got: Vec<Vec<String>> = handles.into_iter().map(|h| h.join().map_err(|_| "thread panicked".to_string())).collect::<Result<_, _>>()?;
    for (pi, g) in got.iter().enumerate() {
        for (k, s) in g.iter().enumerate() {
            let want = &expected[pi][k % dates.len()];
            if s != want {
                return Err(format!("place {:?} day {}: concurrent evaluation gives {s}, the sequential evaluation gave {want}", places[pi], dates[k % dates.len()]));
            }
        }
    }
    // later use
    for (pi, p) in places.iter().enumerate() {
        for (di, d) in dates.iter().enumerate() {
            let s = render(&make(*p), *d);
            if s != expected[pi][di] {
                return Err(format!("place {p:?} day {d}: evaluation after the threads joined gives {s}, before them it gave {}", expected[pi][di]));
            }
        }
    }
    Ok(format!("{}", expected.iter().flatten().map(|s| s.len()).sum::<usize>()))
}

/// Many more threads than cores inside the same few evaluations at once (any fixed-size pool of buffers, slots
/// or permits is exhausted): every result must equal the sequential one.
fn many_threads(seed: u64) -> Result<String, String> {
    let mut rng = Rng(seed);
    // every other workload: 64-79 threads on an expression of many additional rules whose spans touch, so that
    // nearly all of an evaluation is spent merging schedules (the innermost loop) and the threads are inside it
    // together
    let heavy = seed % 2 == 1;
    let n = if heavy { 64 + rng.below(16) as usize } else { 18 + rng.below(5) as usize };
    let per_thread = if heavy { 2 } else { 3 };
    let many_rules: String = (0..14).map(|i| if i % 2 == 0 { 13 - i / 2 } else { 14 + i / 2 }).map(|i| format!("Mo-Su {:02}:00-{:02}:00{}", 2 + i, 3 + i, if i % 5 == 4 { " unknown" } else { "" })).collect::<Vec<_>>().join(", ");
    let exprs = ["Mo-Fr 09:00-12:00,13:00-17:00; Sa 10:00-12:00,12:00-14:00", "Mo-Su 10:00-12:00, 11:00-14:00 unknown, 13:30-16:00", "Mo-Fr 08:00-10:00,10:00-12:00,12:00-13:00 \"x\""];
    let e = if heavy { many_rules.as_str() } else { exprs[rng.below(3) as usize] };
    let oh = Arc::new(OpeningHours::parse(e).map_err(|e| format!("harness: {e}"))?);
    let days: Vec<NaiveDate> = (0..3).map(|i| NaiveDate::from_ymd_opt(2024, 3, 4 + i + rng.below(3) as u32).unwrap()).collect();
    let render = |oh: &OpeningHours, d: NaiveDate| -> String { oh.schedule_at(d).into_iter().map(|r| format!("[{}-{} {:?} {:?}]", r.range.start, r.range.end, r.kind, r.comments)).collect() };
    let expected: Vec<String> = days.iter().map(|d| render(&oh, *d)).collect();
    let handles: Vec<_> = (0..n)
        .map(|i| {
            let (oh, days) = (oh.clone(), days.clone());
            thread::spawn(move || days.iter().cycle().skip(i % 3).take(per_thread).map(|d| (*d, oh.schedule_at(*d).into_iter().map(|r| format!("[{}-{} {:?} {:?}]", r.range.start, r.range.end, r.kind, r.comments)).collect::<String>())).collect::<Vec<_>>())
        })
        .collect();
    for (i, h) in handles.into_iter().enumerate() {
        for (d, got) in h.join().map_err(|_| "thread panicked".to_string())? {
            let want = &expected[days.iter().position(|x| *x == d).unwrap()];
            if &got != want {
                return Err(format!("thread {i} of {n}, {d}: concurrent schedule {got}, sequential {want}"));
            }
        }
    }
    for (d, want) in days.iter().zip(&expected) {
        let got = render(&oh, *d);
        if &got != want {
            return Err(format!("{d}: schedule after the threads joined {got}, before them {want}"));
        }
    }
    Ok(format!("{n}"))
}

fn main() {
    let args: Vec<String> = std::env::args().collect();
    let scenario = args.get(1).map(|s| s.as_str()).unwrap_or("shared-eval");
    let seed: u64 = args.get(2).and_then(|s| s.parse().ok()).unwrap_or(1);
    let r = match scenario {
        "shared-eval" => shared_eval(seed),
        "lazy-holidays" => lazy_holidays(seed),
        "sun-coords" => sun_coords(seed),
        "many-threads" => many_threads(seed),
        _ => {
            eprintln!("usage: miri-scn <shared-eval|lazy-holidays|sun-coords|many-threads> <workload seed>");
            std::process::exit(2)
        }
    };
    match r {
        Ok(d) => println!("OK {scenario} wseed={seed} digest={d}"),
        Err(m) => {
            println!("MISMATCH {scenario} wseed={seed}: {m}");
            std::process::exit(1)
        }
    }
}
